"""Per-property MANIFEST entries."""
BASE_NOTE = ('Trusted base: CrossHair 0.0.110 + z3 5.1 for CONFIRMED verdicts; the environment model '
             'vf/env (NumPy subset, POSIX FS, json, tarfile) whose contracts are listed in DESIGN.md '
             'section 5 and validated against the installed NumPy/CPython by the scenario differential on '
             'every run; bounds stated per obligation in the evidence file.')
CHECKS = {
    'C03': dict(
        text='Every obligation is a CrossHair exploration of the real Array.__init__/append/iterappend/'
             '_append/_checkarrayforappend/_update_len/__setitem__/truncate_array from an arbitrary valid '
             'on-disk state with UNBOUNDED first-axis lengths, chunk lengths and truncate index; the '
             'search tree is exhausted, so within the structural bounds (chunks per call, sequence length) '
             'the result holds for all integers. One inductive step from an arbitrary valid state plus '
             'bounded operation sequences.',
        note=BASE_NOTE + ' Outside: more than F chunks per call, sequences longer than L, two handles '
             'writing one directory, bit patterns of values (N-bits).'),
}
PENDING = 'check under construction in this session (see DESIGN.md section 4); not claimed until it runs clean'
NOT_APPLICABLE = {f'C{i:02d}': PENDING for i in range(1, 21) if f'C{i:02d}' not in CHECKS}
