"""Per-property MANIFEST entries."""
BASE_NOTE = ('Trusted base: CrossHair 0.0.110 + z3 5.1 for CONFIRMED verdicts; the environment model '
             'vf/env (NumPy subset, POSIX FS, json, tarfile) whose contracts are listed in DESIGN.md '
             'section 5 and validated against the installed NumPy/CPython by the scenario differential on '
             'every run; structural bounds are stated per obligation in the evidence file. ')
E1 = ('CrossHair exploration of the real Darr source over the environment model; every branch decided by z3; '
      'the search tree is exhausted, so within the stated structural bounds the verdict covers all integers '
      '(lengths, offsets, indices, limits are unbounded symbolic variables). ')
T = {
 'C03': ('one inductive step (append / iterappend / assign / truncate / mode change) from an arbitrary valid on-disk '
         'state, plus bounded operation sequences; live handle, fresh handle and an independent decoder compared with the NumPy model.',
         'Outside: more than F chunks per call, sequences longer than L, two handles on one directory, bit patterns (N-bits).'),
 'C04': ('ragged append / iterappend / truncate / getitem / iter_arrays / create / asraggedarray from an arbitrary valid state with K '
         'pre-existing subarrays of unbounded (incl. zero) length, compared with a list-of-arrays model on live and fresh handles.',
         'Outside: more than K pre-existing subarrays, more than F items per call.'),
 'C05': ('the C04 harness family asserted with an independent on-disk decoder of values/, indices/ and the top-level descriptor '
         '(contiguity of index rows, last end = N, len/size/atom/numtype).', 'Outside: as C04.'),
 'C09': ('iterappend/append with a symbolic failure position and kind; write refusal modelled as a symbolic byte limit so that every '
         'byte offset (chunk boundary +-1, mid-row, mid-element) is one variable; recovery path executed from source.',
         'Outside: a second fault during recovery. Replay uses a child process under RLIMIT_FSIZE.'),
 'C10': ('ragged append/iterappend with symbolic failure position, kinds: iterable raises, wrong atom, unconvertible, index overflow, '
         'write refusal on values / indices at any byte offset.', 'Outside: second fault during rollback; ilimit counterexamples cannot be replayed under RLIMIT_FSIZE (limit below README size).'),
 'C11': ('every mutating entry point x how mode r was obtained x with/without metadata x {Array, RaggedArray}, array length symbolic (>= 0) '
         'so that the empty-array substitute path is a value; oracle = raises AND whole-directory snapshot identical; then succeeds in r+.',
         'Outside: a second handle on the same directory.'),
 'C13': ('sequences of <= 2 metadata operations (8 kinds) from {no file, 1 key, 2 keys} with symbolic key selectors and 11 value kinds with symbolic int '
         'payloads, against a dict model under JSON round trip; file exists iff non-empty; fresh handle agrees.',
         'Outside: json rendering of NaN / non-ASCII (N-json); sequences longer than 2.'),
 'C17': ('symbolic crash point before any FS-mutating primitive + symbolic torn prefix of the in-flight write, for append / iterappend (incl. recovery path) / '
         'truncate / metadata change on Array and RaggedArray; oracle = fresh open raises or shows before / after / original + whole chunks.',
         'Outside: power loss and page-cache reordering (F-crash), a second crash, crashes inside creation. Replay: line-granular snapshots of the real run + synthesized torn files.'),
}
CHECKS = {k: dict(text=E1 + v[0], note=BASE_NOTE + v[1]) for k, v in T.items()}
PENDING = 'check under construction in this session (see DESIGN.md section 4); not claimed until it runs clean'
NOT_APPLICABLE = {f'C{i:02d}': PENDING for i in range(1, 21) if f'C{i:02d}' not in CHECKS}
