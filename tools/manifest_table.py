"""Per-property MANIFEST entries."""
BASE_NOTE = ('Trusted base: CrossHair 0.0.110 + z3 5.1 for CONFIRMED verdicts; the environment model '
             'vf/env (NumPy subset, POSIX FS, json, tarfile) whose contracts are listed in DESIGN.md '
             'section 5 and validated against the installed NumPy/CPython by the scenario differential on '
             'every run; structural bounds are stated per obligation in the evidence file. ')
E1 = ('CrossHair exploration of the real Darr source over the environment model; every branch decided by z3; '
      'the search tree is exhausted, so within the stated structural bounds the verdict covers all integers '
      '(lengths, offsets, indices, limits are unbounded symbolic variables). ')
T = {
 'C03': ('one inductive step (append / iterappend / assign / truncate / mode change) from an arbitrary valid on-disk '
         'state, plus bounded operation sequences; live handle, fresh handle and an independent decoder compared with the NumPy model.',
         'Outside: more than F chunks per call, sequences longer than L, two handles on one directory, bit patterns (N-bits).'),
 'C04': ('ragged append / iterappend / truncate / getitem / iter_arrays / create / asraggedarray from an arbitrary valid state with K '
         'pre-existing subarrays of unbounded (incl. zero) length (appended items as ndarray in row-major / column-major / strided layout, other type, list), compared with a list-of-arrays model on live and fresh handles.',
         'Outside: more than K pre-existing subarrays, more than F items per call.'),
 'C05': ('the C04 harness family asserted with an independent on-disk decoder of values/, indices/ and the top-level descriptor '
         '(contiguity of index rows, last end = N, len/size/atom/numtype); also after an iterappend that FAILED part-way (harness shared with C10).', 'Outside: as C04.'),
 'C09': ('iterappend/append with a symbolic failure position and kind; write refusal modelled as a symbolic byte limit so that every '
         'byte offset (chunk boundary +-1, mid-row, mid-element) is one variable; recovery path executed from source.',
         'Outside: a second fault during recovery. Replay uses a child process under RLIMIT_FSIZE.'),
 'C10': ('ragged append/iterappend with symbolic failure position, kinds: iterable raises, wrong atom, unconvertible, index overflow, '
         'write refusal on values / indices at any byte offset.', 'Outside: second fault during rollback; ilimit counterexamples cannot be replayed under RLIMIT_FSIZE (limit below README size).'),
 'C11': ('every mutating entry point x how mode r was obtained x with/without metadata x {Array, RaggedArray}, array length symbolic (>= 0) '
         'so that the empty-array substitute path is a value; oracle = raises AND whole-directory snapshot identical; then succeeds in r+.',
         'Outside: a second handle on the same directory.'),
 'C13': ('sequences of <= 2 metadata operations (8 kinds) from {no file, 1 key, 2 keys} with symbolic key selectors and 11 value kinds with symbolic int '
         'payloads, against a dict model under JSON round trip; file exists iff non-empty; fresh handle agrees; the same for the state right after each of the 6 creating functions with metadata None / {} / one key.',
         'Outside: json rendering of NaN / non-ASCII (N-json); sequences longer than 2.'),
 'C17': ('symbolic crash point before any FS-mutating primitive + symbolic torn prefix of the in-flight write, for append / iterappend (incl. recovery path) / '
         'truncate / metadata change on Array and RaggedArray; oracle = fresh open raises or shows before / after / original + whole chunks.',
         'Outside: power loss and page-cache reordering (F-crash), a second crash, crashes inside creation. Replay: line-granular snapshots of the real run + synthesized torn files.'),
}
T.update({
 'C01': ('asarray for each input form (ndarray in C / F / strided layout, nested sequence, scalar, iterator of chunks, Darr Array) with symbolic '
         'length and chunklen, dtype argument, and create_array with fill / fillfunc; compared with the NumPy reference on the returned handle, a '
         'fresh handle and the independent decoder; rejected element types leave the FS snapshot unchanged; 13x2 dtype table with the real NumPy.',
         'Outside: more than F chunks per call; bit patterns of special values (N-bits); zero-length trailing axes.'),
 'C02': ('every completed operation of the C01 / C03 harness families plus metadata create/delete and overwrite=True re-creation is followed by an '
         'independent decoder (documented format only, ground-truth byte order) that must reproduce what the Darr API reports.',
         'Outside: as C01 / C03.'),
 'C08': ('README generation NOT stubbed: after each operation the text in the model FS is compared token-wise (literal parts equal, numbers equal as '
         'terms, decided by z3) with readcodetxt(fresh handle) for Array, RaggedArray, values/ and indices/; ragged K in {0,1,5,6} (thorough 0..7).',
         'Outside: line-wrapping positions (layout).'),
 'C12': ('sequences of two accesses (read / write with an opaque index token of symbolic validity, first-axis slices and ints with symbolic bounds) inside '
         'or outside one open_array() context, followed by later file changes; results must be detached (a view of a closed map raises UseAfterUnmap in the '
         'model), equal to reference[idx], durable, and no file object / map may stay open (the caller keeps the exception objects of failed accesses); tuple indices '
         'with an Ellipsis; an inner context or chunk iterator asking for another access mode than the enclosing one; arrays without elements.',
         'Outside: NumPy own evaluation of index expressions (N-index); two consecutive symbolic slice assignments.'),
 'C14': ('E1: real fit_frames over ALL integers, real iterindices with every parameter symbolic (trip count bounded by the precondition), real iterchunks on '
         'the model array (detached copies, tiling). E2: lemmas generated from the AST of fit_frames / iterindices as SMT-LIB2, unsat required from z3 4.8.12, '
         'z3 5.1 and cvc5 1.0.3 (unbounded, no unrolling); translator validated against the real function on the repository test triples and a grid; a source that '
         'divides with "/" is decided below 2^53 only and searched for a witness above, which is run on the real function.',
         'Outside: more than KMAX full frames per iterindices call in E1 (E2 lemmas are unbounded).'),
 'C15': ('Array.copy / RaggedArray.copy with symbolic lengths (length-0 sources and ragged arrays without subarrays included), target dtypes, nested metadata and '
         'one post-copy mutation on either side; archive(): what Darr decides (name, mode, compression types, arcname, refusal) against a tarfile model.',
         'Outside: byte identity after extraction (N-tar; exercised in replay with real archives).'),
 'C16': ('delete_array / delete_raggedarray with 0..2 foreign nodes (file, dir, dir with file, symlink to file / dir, directory named like a Darr file) at top / '
         'values / indices (and with a metadata.json holding {}); non-Darr targets and arrays of the other kind, by path and as a writable object; each of the 7 creating functions on each previous '
         'occupant (user files also inside values/ and indices/ of a RaggedArray occupant) with overwrite symbolic/split, incl. creation failing part-way; FS snapshot algebra.',
         'Outside: hard links, mount points, symlinks named like a Darr file.'),
 'C18': ('one corrupted descriptor field at a time (30 token classes) x {Array, ragged values, ragged indices}; data length off by ANY non-zero delta; two-axis '
         'shapes with a negative extent and any file length; oracle: every opener raises, delete/truncate by path raise TypeError and the snapshot is unchanged.',
         'Relies on N-memmap (negative / bool dims rejected), probed against the installed NumPy in the conformance step. Outside: pairs of corrupted fields (quick).'),
 'C19': ('ALL well-formed schedules of L actions (quick 3, thorough 4) over two iterchunks generators, two nested open_array() contexts, reads and writes, '
         'completed by finishing the survivors in either order; schedules enumerated by the runner, array and chunk lengths symbolic; oracle: no use of an '
         'unmapped map, chunks/reads equal the contents at that moment, writes durable, nothing left open. Replay: child process on a multi-MB array, SIGSEGV observed.',
         'Outside: three generators, longer schedules.'),
 'C20': ('the file-name argument is a symbolic str (|f| <= 4 quick / 5 thorough over {a, b, ., /}), as str or Path, through 12 public writer entry points of a DataDir '
         'protecting {file a, directory b}; the model FS own kernel-style resolution decides whether the spelling denotes a protected node; protected nodes must be '
         'unchanged in every case and OSError raised when the target is protected; user-file round trip and the constituent names of Array / RaggedArray concretely.',
         'Outside: longer names, symlinked directories, case-folding file systems.'),
})
T.update({
 'C06': ('for every type x byte order x rank the real readcode() / Array.readcode / readcodelanguages run with SYMBOLIC extents (numbers are rendered as '
         'placeholders and mapped back to terms); a per-language interpreter (vf/lang/arraycode.py, one per target language, written from the documented '
         'binary-read / reshape semantics) parses the program - a parse, arity or type failure is "not well-formed" - and z3 decides count = prod(extents), '
         'dims = extents (row-major) or reversed (column-major), type / endianness tokens, requested path and read-only open mode; offered / withheld against '
         'the tables parsed from docs/readcode.rst; offset identity lemma by z3 and cvc5; what the Darr-language program does (open with default mode, read) changes '
         'no file, for descriptions written by the running, an older or a newer Darr version, n >= 0 rows.',
         'Outside: the truth of the foreign-language rules (trusted base, each quoted with its reference); the Python-family rules are validated by executing '
         'the real snippets with the real NumPy (conformance + replay).'),
 'C07': ('the real ragged readcode() with symbolic number of subarrays, values length, atom extents and index row (S <= E, zero-length subarrays included); '
         'the embedded array reads go through the C06 interpreters, the subarray accessor is evaluated symbolically under each language indexing rules '
         '(origin, end inclusiveness, axis order, empty ranges / guards) and z3 decides that it selects exactly rows [S, E); example statement = well-formed '
         'binding of the stated existing subarray; withheld iff values or index type unsupported; read code asked again on the same handle after truncate / append '
         'describes the array as it is then; running the Darr-language program changes no file (descriptions of other Darr versions included).',
         'Outside: the truth of the indexing rules encoded in vf/lang/raggedcode.py (trusted base); numpymemmap / darr snippets are executed in conformance.'),
})
CHECKS = {k: dict(text=E1 + v[0], note=BASE_NOTE + v[1]) for k, v in T.items()}
PENDING = 'check under construction in this session (see DESIGN.md section 4); not claimed until it runs clean'
NOT_APPLICABLE = {f'C{i:02d}': PENDING for i in range(1, 21) if f'C{i:02d}' not in CHECKS}
