#!/bin/sh
# tools/evalseed.sh <ID> <A|B> : confirm a sub-agent's change in a scratch worktree, then run our check on it
ID="$1"; V="$2"; B="${SEEDBASE:-/tmp/wt}"; OUT=$B/$ID.out; EV=$B/eval_$ID$V
cd /verif || exit 2
[ -f "$OUT/$V.diff" ] || { echo "$ID$V: no diff"; exit 2; }
rm -rf "$EV"; git -C /repo worktree prune; git -C /repo worktree add -q --detach "$EV" HEAD || exit 2
RES="$ID$V:"
if ! git -C "$EV" apply --3way "$OUT/$V.diff" 2>/dev/null && ! git -C "$EV" apply "$OUT/$V.diff" 2>/dev/null; then
  echo "$RES patch does not apply to current HEAD"; git -C /repo worktree remove --force "$EV"; exit 3; fi
git -C "$EV" diff HEAD > $B/$ID$V.rebased.diff
( cd "$EV" && /venv/bin/python -m pytest -q -p no:cacheprovider darr/tests -q 2>&1 | tail -1 ) > $B/$ID$V.tests
TESTS=$(cat $B/$ID$V.tests)
( cd /tmp && PYTHONPATH="$EV" timeout 300 /venv/bin/python "$OUT/${V}_demo.py" >$B/$ID$V.demo_with 2>&1 ); DW=$?
git -C "$EV" checkout -q -- . ; git -C "$EV" reset -q --hard HEAD
( cd /tmp && PYTHONPATH="$EV" timeout 300 /venv/bin/python "$OUT/${V}_demo.py" >$B/$ID$V.demo_without 2>&1 ); DWO=$?
git -C /repo worktree remove --force "$EV"
RES="$RES tests=[$TESTS] demo_with=$DW demo_without=$DWO"
# our check
git -C /repo diff --quiet || { echo "$RES /repo not clean"; exit 2; }
git -C /repo apply $B/$ID$V.rebased.diff || { echo "$RES rebased patch does not apply to /repo"; exit 3; }
CHK="${3:-$ID}"
VERIF_EVIDENCE_DIR=/tmp/seed-evidence ./check "$CHK" --tier quick > $B/$ID$V.check.log 2>&1; RC=$?
git -C /repo checkout -- .
NV=$(grep -c '^VIOLATION' $B/$ID$V.check.log)
echo "$RES check=$CHK rc=$RC violations=$NV $(grep '^SUMMARY' $B/$ID$V.check.log | cut -d' ' -f4-12)"
grep -A2 '^VIOLATION' $B/$ID$V.check.log | grep 'what=' | sed 's/.*what=//' | cut -c1-160 | sort | uniq -c | sort -rn | head -3
