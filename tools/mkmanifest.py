#!/usr/bin/env python3
"""Generate MANIFEST.json from the table below (run from /verif)."""
import json, os, sys
HERE = os.path.dirname(os.path.dirname(os.path.abspath(__file__)))
TECH = ('bounded symbolic execution of the real Darr source (CrossHair 0.0.110 path exploration, '
        'z3 5.1 deciding every branch and assertion) over a pure-Python environment model; '
        'counterexamples replayed on the real code')
CHECKS = {
    # id: (level text, level note, design ref, extra technique)
}
sys.path.insert(0, HERE)
from tools.manifest_table import CHECKS, NOT_APPLICABLE  # noqa

checks = []
for pid in sorted(CHECKS):
    c = CHECKS[pid]
    checks.append({
        'property_id': pid,
        'quick_cmd': f'./check {pid} --tier quick',
        'thorough_cmd': f'./check {pid} --tier thorough',
        'evidence_file': f'/verif/evidence/{pid}.json',
        'replay_cmd_template': f'./check {pid} --replay {{path}}',
        'engine': 'vf',
        'level_claimed': {'category': 'model_checking', 'text': c['text'],
                          'design_ref': c.get('ref', 'DESIGN.md section 4.' + pid)},
        'level_note': c['note'],
        'technique': c.get('technique', TECH),
    })
m = {
    'version': 1,
    'setup_cmd': './bootstrap.sh',
    'hooks': {'guard': 'DARR_VERIF',
              'enable': 'none needed: the environment is substituted at load time by vf/loader.py '
                        '(AST rewrite of /repo/darr/*.py read from the working tree on every run); '
                        'DARR_VERIF is reserved and unused, /repo carries no hook commits',
              'baseline_off_cmd': 'cd /repo && /venv/bin/python -m pytest -ra -q -p no:cacheprovider '
                                  '--timeout=900 --continue-on-collection-errors',
              'source_commits': [], 'add_only': True},
    'engines': [{'name': 'vf', 'path': '/verif/vf',
                 'serves_properties': sorted(CHECKS),
                 'kind_free_text': 'E1: CrossHair/z3 symbolic execution of the real source over vf.env; '
                                   'E2: Python-AST -> SMT-LIB2 lemmas discharged by z3 4.8.12, z3 5.1 and cvc5'}],
    'checks': checks,
    'not_applicable': [{'property_id': k, 'reason': v} for k, v in sorted(NOT_APPLICABLE.items())],
    'notes': 'Exit codes: 0 held on everything explored (inconclusive obligations are printed as '
             'INCONCLUSIVE and counted in evidence, never as discharged); 1 VIOLATION reproduced on the '
             'real code; 2 machinery fault (nothing is claimed). Known findings: KNOWN_FINDINGS.txt.',
}
json.dump(m, open(os.path.join(HERE, 'MANIFEST.json'), 'w'), indent=1)
import jsonschema
jsonschema.validate(m, json.load(open('/root/.vp/MANIFEST.schema.json')))
print('MANIFEST ok:', len(checks), 'checks,', len(m['not_applicable']), 'not applicable')
