#!/bin/sh
# tools/regress.sh [pattern] : re-run the quick check of every kept seeded change (seeded/<ID>-*/patch.diff) against a
# scratch worktree of /repo (DARR_REPO), never touching /repo itself; one line per seed in $OUT (default /tmp/regress.log)
cd /verif || exit 2
WT=${WT:-/tmp/regr}; OUT=${OUT:-/tmp/regress.log}; JOBS=${JOBS:-8}
git -C /repo worktree remove --force $WT 2>/dev/null
git -C /repo worktree add --detach $WT HEAD >/dev/null 2>&1 || exit 2
: > $OUT
for d in seeded/${1:-*}/; do
  n=$(basename $d); id=${n%%-*}
  chk=$(python3 -c "import json,re;m=json.load(open('$d/meta.json'));c=re.search(r'check (C\d\d)',m.get('check_run',{}).get('cmd',''));print(c.group(1) if c else '$id')")
  git -C $WT checkout -q -- . ; git -C $WT apply /verif/$d/patch.diff 2>/dev/null || git -C $WT apply --3way /verif/$d/patch.diff 2>/dev/null || { echo "$n APPLY-FAILED" >> $OUT; continue; }
  DARR_REPO=$WT VERIF_EVIDENCE_DIR=/tmp/seed-evidence ./check $chk --tier quick --jobs $JOBS > /tmp/regr_one.log 2>&1; rc=$?
  echo "$n check=$chk rc=$rc $(grep -c '^VIOLATION' /tmp/regr_one.log) viol; $(grep '^SUMMARY' /tmp/regr_one.log | cut -d' ' -f4-)" >> $OUT
done
git -C /repo worktree remove --force $WT
echo REGRESSDONE >> $OUT
