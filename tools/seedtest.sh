#!/bin/sh
# tools/seedtest.sh <patch.diff> <PROP> [tier]   - apply a seeded change to /repo, run the check, undo
P="$1"; PROP="$2"; TIER="${3:-quick}"
cd /verif || exit 2
git -C /repo diff --quiet || { echo "/repo not clean"; exit 2; }
git -C /repo apply "$P" || { echo "patch does not apply"; exit 2; }
VERIF_EVIDENCE_DIR=/tmp/seed-evidence ./check "$PROP" --tier "$TIER" > /tmp/seed_$PROP.log 2>&1
RC=$?
git -C /repo checkout -- .
echo "rc=$RC $(grep -c '^VIOLATION' /tmp/seed_$PROP.log) violations; $(grep '^SUMMARY' /tmp/seed_$PROP.log)"
grep -A2 '^VIOLATION' /tmp/seed_$PROP.log | grep 'what=\|replay:' | cut -c1-400 | head -4
exit $RC
