#!/usr/bin/env python3
"""tools/seedtable.py : regenerate the per-seed table of DESIGN.md section 11.6 from seeded/*/meta.json
(replaces the lines between the table header and the next blank line)."""
import json, os, glob, re
rows = []
for d in sorted(glob.glob('/verif/seeded/*/')):
    name = os.path.basename(d.rstrip('/'))
    m = json.load(open(d + 'meta.json'))
    obs = ', '.join(m.get('check_run', {}).get('obligations_reporting_violation', [])) or '(see meta.json)'
    notes = m.get('notes', '')
    if m.get('caught_when'):
        c = m['caught_when']
    elif 'first run' in notes:
        c = 'first run'
    elif 'replay' in notes and 'fixed' in notes:
        c = 'solver yes, replay fixed'
    elif 'sibling' in notes:
        c = 'by sibling check ' + re.search(r'sibling (\w+)', notes).group(1)
    else:
        c = 'after strengthening'
    summ = m.get('summary', '').replace('|', '/').replace('\n', ' ')[:120]
    rows.append(f'| `{name}` | {summ} | {obs} | {c} |')
hdr = '| seeded change | what it does (sub-agent\'s words, truncated) | obligations that report it | caught |\n|---|---|---|---|\n'
p = '/verif/DESIGN.md'
s = open(p).read()
i = s.index(hdr) + len(hdr)
j = s.index('\n\n', i)
s = s[:i] + '\n'.join(rows) + s[j:]
open(p, 'w').write(s)
print(len(rows), 'rows')
