#!/usr/bin/env python3
"""Validate MANIFEST.json and evidence/*.json against the schemas."""
import json, glob, sys, jsonschema
m = json.load(open('MANIFEST.json'))
jsonschema.validate(m, json.load(open('/root/.vp/MANIFEST.schema.json')))
es = json.load(open('/root/.vp/EVIDENCE.schema.json'))
bad = 0
for c in m['checks']:
    f = c['evidence_file']
    try:
        e = json.load(open(f))
        jsonschema.validate(e, es)
        cov = e['coverage']
        print(c['property_id'], e['tier'], 'obl', cov.get('obligations'), 'disch', cov.get('discharged'), 'evals', cov['evaluations'],
              'nontriv', cov['distinct_nontrivial'], 'traces', cov.get('traces_validated_against_impl'), 'wall', e['wall_s'], 'viol', e.get('violations'))
    except Exception as ex:
        bad += 1
        print(c['property_id'], 'INVALID', str(ex)[:200])
sys.exit(1 if bad else 0)
