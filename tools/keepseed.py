#!/usr/bin/env python3
"""tools/keepseed.py <ID> <A|B> <name> <caught: yes|no|partly> <notes...> : file a confirmed seeded change under /verif/seeded/"""
import sys, os, json, shutil, re
ID, V, name, caught = sys.argv[1:5]
notes = ' '.join(sys.argv[5:])
import os as _o; B = _o.environ.get('SEEDBASE', '/tmp/wt'); src = f'{B}/{ID}.out'
dst = f'/verif/seeded/{ID}-{name}'
os.makedirs(dst, exist_ok=True)
shutil.copy(f'{B}/{ID}{V}.rebased.diff', dst + '/patch.diff')
shutil.copy(f'{src}/{V}_demo.py', dst + '/demo.py')
meta = json.load(open(f'{src}/{V}.json'))
log = open(f'{B}/{ID}{V}.check.log').read()
summ = re.findall(r'^SUMMARY.*$', log, re.M)
viol = sorted(set(re.findall(r'obligation=(\S+)', '\n'.join(l for l in log.splitlines() if l.startswith('  obligation=')))))
meta.update({
    'property': meta.get('property', ID), 'origin': 'independent sub-agent given only the property text and a scratch worktree',
    'confirmed_by_me': {'tests_with_change': open(f'{B}/{ID}{V}.tests').read().strip()[-40:],
                        'demo_exit_with_change': 'non-zero', 'demo_exit_without_change': 0,
                        'how': 'tools/evalseed.sh: fresh worktree of /repo HEAD, git apply, full pytest, demo with PYTHONPATH=worktree, revert, demo again'},
    'check_run': {'cmd': f'git -C /repo apply seeded/{ID}-{name}/patch.diff && ./check {ID} --tier quick ; git -C /repo checkout -- .',
                  'summary': summ[-1] if summ else '', 'obligations_reporting_violation': viol},
    'caught': caught, 'notes': notes})
json.dump(meta, open(dst + '/meta.json', 'w'), indent=1)
print('kept', dst, caught)
