#!/bin/sh
# Offline bootstrap of the overlay venv used by every check (idempotent).
set -e
cd "$(dirname "$0")"
if [ ! -x .venv/bin/python ] || ! .venv/bin/python -c "import crosshair, z3, numpy" 2>/dev/null; then
  rm -rf .venv
  /venv/bin/python -m venv .venv
  printf '/venv/lib/python3.12/site-packages\n/repo\n' > .venv/lib/python3.12/site-packages/_verif.pth
  PIP_NO_INDEX=1 .venv/bin/pip install -q --no-index --find-links /opt/veriftools/wheels crosshair-tool z3-solver jsonschema >/dev/null
fi
.venv/bin/python -c "import crosshair, z3, numpy"
