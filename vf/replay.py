"""Replay support: counterexamples are re-executed against the REAL darr + NumPy in a real
scratch directory (outside /repo and /verif, removed afterwards)."""
import contextlib
import os
import shutil
import subprocess
import sys
import tempfile
import json

REPO = os.environ.get('DARR_REPO', '/repo')


@contextlib.contextmanager
def scratch():
    base = os.environ.get('TMPDIR') or '/tmp'
    d = tempfile.mkdtemp(prefix='darrverif-', dir=base)
    try:
        yield d
    finally:
        shutil.rmtree(d, ignore_errors=True)


def real():
    """The real darr package from /repo's working tree and real numpy."""
    if REPO not in sys.path:
        sys.path.insert(0, REPO)
    import numpy as np
    import darr
    return darr, np


def values(np, n, atom, numtype, bolabel='little', base=1):
    """n rows of pairwise distinct values of the given type."""
    cnt = int(n) * int(np.prod(atom, dtype=int)) if atom else int(n)
    v = (np.arange(cnt, dtype='int64') + base)
    if numtype.startswith('int') or numtype.startswith('uint'):
        info = np.iinfo(numtype)
        if int(info.max) < 2 ** 62:
            v = v % (int(info.max) + 1)
    a = v.astype(numtype).reshape((int(n),) + tuple(atom))
    return a.astype(np.dtype(numtype).newbyteorder('<' if bolabel == 'little' else '>'))


def run_child(code, timeout=120, env=None):
    """Run python code in a child with the real darr; returns (returncode, stdout, stderr)."""
    e = dict(os.environ)
    e['PYTHONPATH'] = REPO + os.pathsep + e.get('PYTHONPATH', '')
    e['PYTHONWARNINGS'] = 'ignore'
    if env:
        e.update(env)
    p = subprocess.run([sys.executable, '-c', code], capture_output=True, text=True,
                       timeout=timeout, env=e)
    return p.returncode, p.stdout, p.stderr


def same(np, a, b):
    """bit-exact equality incl. dtype and shape."""
    return (a.dtype == b.dtype and a.shape == b.shape
            and a.tobytes() == np.ascontiguousarray(b).tobytes())


def forked(fn, *args, timeout=300):
    """run fn(*args) -> JSON-able dict in a forked child, so that a crash of the interpreter (a dangling
    memory-map view is SIGSEGV, not an exception) is OBSERVED instead of suffered"""
    import json
    import signal
    import select
    r, w = os.pipe()
    pid = os.fork()
    if pid == 0:
        try:
            os.close(r)
            try:
                out = fn(*args)
            except BaseException as e:      # noqa
                import traceback
                out = {'reproduced': False, 'detail': 'replay error ' + traceback.format_exc()[-800:]}
            os.write(w, json.dumps(out, default=str).encode())
        finally:
            os._exit(0)
    os.close(w)
    data = b''
    import time
    t0 = time.time()
    while True:
        rl, _, _ = select.select([r], [], [], 1.0)
        if rl:
            chunk = os.read(r, 65536)
            if not chunk:
                break
            data += chunk
        if time.time() - t0 > timeout:
            os.kill(pid, signal.SIGKILL)
            break
    _, status = os.waitpid(pid, 0)
    os.close(r)
    if os.WIFSIGNALED(status):
        sig = os.WTERMSIG(status)
        return {'reproduced': True, 'detail': f'the interpreter was killed by {signal.Signals(sig).name} while replaying '
                                              f'(use of memory that is no longer mapped)'}
    try:
        return json.loads(data.decode())
    except ValueError:
        return {'reproduced': False, 'detail': 'replay child produced no result'}
