"""Runner: obligations -> parallel CrossHair jobs -> replay -> evidence -> exit code.

exit 0  nothing violated among everything explored (inconclusive obligations are printed
        and counted, never described as success)
exit 1  a counterexample reproduced on the real code that KNOWN_FINDINGS.txt does not list
exit 2  machinery fault (non-reproducing counterexample, vacuous harness, harness error,
        conformance mismatch, solver disagreement)
"""
import hashlib
import importlib
import json
import multiprocessing as mp
import os
import random
import sys
import time
import traceback

VERIF = os.path.dirname(os.path.dirname(os.path.abspath(__file__)))
# runs against a deliberately changed /repo (tools/evalseed.sh, tools/seedtest.sh) keep their evidence apart
EVDIR = os.environ.get('VERIF_EVIDENCE_DIR') or os.path.join(VERIF, 'evidence')


class Ob:
    """One obligation (possibly split into several jobs by the runner)."""

    def __init__(self, name, fn, splits=None, timeout=120, must_reach=('end',), regions=(),
                 replay=None, bounds='', sym='', per_path_timeout=30.0, kind='e1',
                 stub_readme=True):
        self.name = name
        self.fn = fn                      # harness function name in the property module
        self.splits = splits or [{}]      # list of dicts of concrete keyword arguments
        self.timeout = timeout
        self.must_reach = tuple(must_reach)
        self.regions = tuple(regions)     # region names the harness knows how to gate
        self.replay = replay              # replay function name
        self.bounds = bounds              # verbatim statement of the bounds
        self.sym = sym                    # the symbolic variables
        self.per_path_timeout = per_path_timeout
        self.kind = kind                  # 'e1' CrossHair exploration | 'e2' SMT lemma | 'concrete'
        self.stub_readme = stub_readme


def read_findings():
    """KNOWN_FINDINGS.txt -> {(property, region): text} for 'finding:' lines."""
    out = {}
    p = os.path.join(VERIF, 'KNOWN_FINDINGS.txt')
    if not os.path.exists(p):
        return out
    for line in open(p, encoding='utf-8'):
        line = line.strip()
        if not line.startswith('finding:'):
            continue
        rest = line[len('finding:'):].strip()
        parts = rest.split(None, 2)
        kv = dict(x.split('=', 1) for x in parts[:2] if '=' in x)
        if 'property' in kv and 'region' in kv:
            out[(kv['property'], kv['region'])] = parts[2] if len(parts) > 2 else ''
    return out


def _job(args):
    """Worker: one exploration."""
    (prop, modname, ob_name, fn_name, fixed, gate, timeout, ppt, must_reach, kind,
     stub_readme, seed) = args
    t0 = time.time()
    try:
        random.seed(seed)
        import warnings
        warnings.simplefilter('ignore')
        sys.path.insert(0, VERIF)
        os.environ['VF_STUB_README'] = '1' if stub_readme else '0'
        mod = importlib.import_module(modname)
        fn = getattr(mod, fn_name)
        from vf import loader
        loader.COVERED.clear()
        if kind == 'e1':
            from vf import engine
            fx = dict(fixed)
            if '_must' in fx:
                must_reach = tuple(fx.pop('_must'))
            fx['_gate'] = gate
            fx['_small'] = False
            r = engine.explore(fn, timeout=timeout, per_path_timeout=ppt,
                               must_reach=must_reach, fixed=fx)
            d = r.as_dict()
            if r.status == 'violated' and any(
                    isinstance(v, int) and not isinstance(v, bool) and abs(v) > 200
                    for v in (r.cex or {}).values()):
                # look for a small, replayable counterexample of the same obligation
                fx['_small'] = True
                r2 = engine.explore(fn, timeout=timeout, per_path_timeout=ppt, fixed=fx)
                if r2.status == 'violated':
                    d2 = r2.as_dict()
                    d2['large_cex'] = d['cex']
                    d2['paths'] += d['paths']
                    d = d2
                else:
                    d['small_search'] = r2.status
        else:
            d = fn(**fixed)          # e2 / concrete obligations return a result dict
        d['functions'] = sorted(loader.COVERED)
    except BaseException as e:   # noqa
        d = dict(status='error', reason=''.join(traceback.format_exception(e))[-3000:],
                 paths=0, paths_ok=0, solver={}, functions=[], reached=[], notes=[])
    d.update(ob=ob_name, fixed=fixed, gate=gate, wall_s=round(time.time() - t0, 3))
    if d.get('cex'):
        d['cex'] = {k: v for k, v in d['cex'].items() if not k.startswith('_')}
    return _plain(d)


def _plain(o):
    if isinstance(o, dict):
        return {str(k): _plain(v) for k, v in o.items()}
    if isinstance(o, (list, tuple, set, frozenset)):
        return [_plain(x) for x in o]
    if isinstance(o, (str, int, float, bool)) or o is None:
        return o
    return repr(o)


def run_property(prop, tier, only=None, jobs=None):
    t0 = time.time()
    seed = int(os.environ.get('VERIF_SEED', '0') or 0)
    modname = f'vf.harness.{prop.lower()}'
    sys.path.insert(0, VERIF)
    mod = importlib.import_module(modname)
    obs = mod.obligations(tier)
    if only:
        obs = [o for o in obs if o.name in only]
    findings = read_findings()
    joblist = []
    for ob in obs:
        active = [r for r in ob.regions if (prop, r) in findings]
        for fixed in ob.splits:
            base = (prop, modname, ob.name, ob.fn, fixed)
            tail = (ob.timeout, ob.per_path_timeout, ob.must_reach, ob.kind, ob.stub_readme,
                    seed)
            joblist.append(base + (('exclude', active),) + tail)
            for r in active:
                joblist.append(base + (('only', [r]),) + (ob.timeout, ob.per_path_timeout,
                               (), ob.kind, ob.stub_readme, seed))
    nproc = jobs or int(os.environ.get('VERIF_JOBS', '0') or 0) or min(16, os.cpu_count() or 4)
    results = []
    if joblist:
        ctx = mp.get_context('fork')
        with ctx.Pool(min(nproc, len(joblist)), maxtasksperchild=4) as pool:
            for d in pool.imap_unordered(_job, joblist, chunksize=1):
                results.append(d)
    obmap = {o.name: o for o in obs}
    # conformance (translator validation): concrete scenarios real vs model
    conf = {'scenarios': 0, 'mismatches': []}
    if hasattr(mod, 'conformance'):
        try:
            conf = mod.conformance(tier)
        except Exception as e:
            conf = {'scenarios': 0, 'mismatches': [''.join(traceback.format_exception(e))[-2000:]]}
    # ---- triage ----
    violations = []
    known = []
    inconclusive = []
    faults = []
    discharged = 0
    for d in results:
        ob = obmap[d['ob']]
        st = d['status']
        mode, names = d['gate']
        if st == 'confirmed' or st == 'holds':
            if mode == 'exclude':
                discharged += 1
            continue
        if st == 'violated':
            rep = None
            if ob.replay:
                try:
                    rep = getattr(mod, ob.replay)(d['cex'], d)
                except Exception as e:
                    rep = {'reproduced': False,
                           'detail': 'replay crashed: ' + ''.join(traceback.format_exception(e))[-1500:]}
            else:
                rep = {'reproduced': False, 'detail': 'no replay function'}
            d['replay'] = rep
            if not rep.get('reproduced') and rep.get('skip'):
                # the solver's counterexample cannot be materialised on a real file system (sizes far
                # beyond what can be allocated, limits below README size): neither confirmed nor refuted
                d['reason'] = 'solver counterexample not replayable: ' + str(rep.get('detail'))[:200]
                d['status'] = 'unreplayed'
                inconclusive.append(d)
                continue
            if not rep.get('reproduced'):
                faults.append((d, 'counterexample did not reproduce on the real code: '
                               + str(rep.get('detail'))[:500]))
                continue
            if mode == 'only':
                known.append((d, names[0], findings[(prop, names[0])]))
            else:
                violations.append(d)
            continue
        if st in ('vacuous', 'error'):
            if mode == 'only' and st == 'vacuous':
                continue   # region empty on this split
            faults.append((d, f"{st}: {d.get('reason')}"))
            continue
        inconclusive.append(d)
    for m in conf.get('mismatches', []):
        faults.append(({'ob': 'conformance', 'fixed': {}}, f'conformance mismatch: {m}'))
    # ---- report ----
    os.makedirs(os.path.join(VERIF, 'replays'), exist_ok=True)
    os.makedirs(EVDIR, exist_ok=True)
    seen_known = set()
    for d, region, text in known:
        if region in seen_known:
            continue
        seen_known.add(region)
        print(f'KNOWN-FINDING: property={prop} region={region} {text} '
              f'[cex {json.dumps(d["cex"], default=str)}]')
    for d in inconclusive:
        print(f'INCONCLUSIVE property={prop} obligation={d["ob"]} split={json.dumps(d["fixed"], default=str)} '
              f'gate={d["gate"]} reason={str(d.get("reason"))[:200]}')
    for d, why in faults:
        print(f'HARNESS-FAULT property={prop} obligation={d["ob"]} split={json.dumps(d.get("fixed"), default=str)} {why[:1500]}')
    vio_paths = []
    for d in violations:
        blob = json.dumps({'property': prop, 'obligation': d['ob'], 'fixed': d['fixed'],
                           'cex': d['cex'], 'what': d.get('what'), 'details': d.get('details'),
                           'replay': d.get('replay')}, default=str, indent=1, sort_keys=True)
        h = hashlib.sha256(blob.encode()).hexdigest()[:10]
        path = os.path.join(VERIF, 'replays', f'{prop}-{h}.json')
        with open(path, 'w') as f:
            f.write(blob)
        vio_paths.append(path)
        print(f'VIOLATION property={prop} replay={path}')
        print(f'  obligation={d["ob"]} split={json.dumps(d["fixed"], default=str)} what={d.get("what")} '
              f'cex={json.dumps(d["cex"], default=str)}')
        print(f'  replay: {str(d["replay"].get("detail"))[:600]}')
    wall = time.time() - t0
    write_evidence(prop, tier, seed, mod, obs, results, discharged, violations, known,
                   inconclusive, faults, conf, wall)
    n_main = sum(1 for d in results if d['gate'][0] == 'exclude')
    print(f'SUMMARY property={prop} tier={tier} jobs={len(results)} obligations={n_main} '
          f'discharged={discharged} violations={len(violations)} known={len(seen_known)} '
          f'inconclusive={len(inconclusive)} faults={len(faults)} wall={wall:.1f}s')
    if violations:
        return 1          # a reproduced violation is reported even if other obligations had machinery faults
    if faults:
        return 2
    return 0


def write_evidence(prop, tier, seed, mod, obs, results, discharged, violations, known,
                   inconclusive, faults, conf, wall):
    from vf import loader
    paths = sum(d.get('paths', 0) or 0 for d in results)
    funcs = sorted(set(f for d in results for f in d.get('functions', [])))
    solver = {'queries': 0, 'sat': 0, 'unsat': 0, 'unknown': 0, 'solver_s': 0.0}
    for d in results:
        for k in solver:
            solver[k] += (d.get('solver') or {}).get(k, 0) or 0
    solver['solver_s'] = round(solver['solver_s'], 3)
    obmap = {o.name: o for o in obs}
    per_ob = []
    for d in sorted(results, key=lambda d: (d['ob'], json.dumps(d['fixed'], default=str),
                                            json.dumps(d['gate']))):
        ob = obmap[d['ob']]
        per_ob.append({
            'obligation': d['ob'], 'split': d['fixed'], 'gate': d['gate'], 'engine': ob.kind,
            'status': d['status'], 'reason': (d.get('reason') or '')[:300],
            'paths': d.get('paths'), 'paths_reaching_assertion': d.get('paths_ok'),
            'labels_reached': d.get('reached'), 'solver': d.get('solver'),
            'wall_s': d.get('wall_s'), 'lemmas': d.get('lemmas'),
        })
    main = [d for d in results if d['gate'][0] == 'exclude']
    nontrivial = sum(1 for d in main if d['status'] in ('confirmed', 'holds')
                     and ((d.get('paths_ok') or 0) > 0 or d.get('lemmas')))
    samples = []
    for ob in obs[:6]:
        ds = [d for d in main if d['ob'] == ob.name]
        if not ds:
            continue
        d = ds[0]
        samples.append({'obligation': ob.name, 'harness': f'{mod.__name__}.{ob.fn}',
                        'symbolic_variables': ob.sym, 'bounds': ob.bounds,
                        'split': d['fixed'], 'status': d['status'],
                        'paths': d.get('paths'), 'witness_notes': (d.get('notes') or [])[:3]})
    ev = {
        'property_id': prop, 'tier': tier, 'seed': seed, 'level': 'model_checking',
        'coverage': {
            'evaluations': max(paths, 1) if results else 0,
            'distinct_nontrivial': nontrivial,
            'rule': 'one case = one obligation x runner split (a CrossHair exploration of the '
                    'real Darr source over the environment model, or an SMT lemma generated from '
                    'the source AST); counted as non-trivial and distinct iff its verdict is '
                    'CONFIRMED (search tree exhausted / unsat from every solver) AND at least '
                    'one explored path reached the final assertion (vacuity guard). '
                    'evaluations = symbolic paths explored over all jobs.',
            'samples': samples,
            'obligations': len(main),
            'discharged': discharged,
            'traces_validated_against_impl': conf.get('scenarios', 0),
            'exhaustive': False,
            'explanation': 'bounded symbolic execution; bounds are stated per obligation in '
                           'samples[].bounds and in per_obligation; inconclusive obligations are '
                           'listed and not counted as discharged',
            'functions_encoded': funcs,
            'source_digest': loader.source_digest(),
            'solver_totals': solver,
            'per_obligation': per_ob,
            'inconclusive': [{'obligation': d['ob'], 'split': d['fixed'],
                              'reason': (d.get('reason') or '')[:300]} for d in inconclusive],
            'known_findings_matched': sorted(set(r for _, r, _ in known)),
            'faults': [w[:300] for _, w in faults],
            'conformance': {k: v for k, v in conf.items() if k != 'mismatches'},
        },
        'assumptions': getattr(mod, 'ASSUMPTIONS', []),
        'wall_s': round(wall, 2),
        'violations': len(violations),
    }
    with open(os.path.join(EVDIR, f'{prop}.json'), 'w') as f:
        json.dump(ev, f, indent=1, default=str)


def main(argv):
    import argparse
    ap = argparse.ArgumentParser()
    ap.add_argument('prop')
    ap.add_argument('--tier', default=os.environ.get('VERIF_TIER', 'quick'))
    ap.add_argument('--only', action='append')
    ap.add_argument('--replay')
    ap.add_argument('--jobs', type=int)
    a = ap.parse_args(argv)
    if a.replay:
        blob = json.load(open(a.replay))
        mod = importlib.import_module(f'vf.harness.{blob["property"].lower()}')
        obs = {o.name: o for o in mod.obligations('quick')}
        ob = obs[blob['obligation']]
        rep = getattr(mod, ob.replay)(blob['cex'], blob)
        print(json.dumps(rep, indent=1, default=str))
        return 1 if rep.get('reproduced') else 0
    return run_property(a.prop, a.tier, a.only, a.jobs)


if __name__ == '__main__':
    sys.exit(main(sys.argv[1:]))
