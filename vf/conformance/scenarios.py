"""Scenario differential (translator validation of the environment model).

Every scenario is one concrete script run twice: against (real darr, real NumPy, a real
scratch directory) and against (darrsym = the same Darr source over the model).  The
observations - exception classes, shapes, dtype strings, parsed JSON descriptors, raw
bytes of every binary file, directory listings - must be identical.  The model side's
bytes are obtained by evaluating the provenance intervals on the concrete sources.
"""
import json
import os
import sys
import traceback

from .. import loader, replay as rp
from ..env import symfs, symnp, holes
from ..env.seq import Seq, Seg


class Real:
    kind = 'real'

    def __init__(self, tmp):
        self.darr, self.np = rp.real()
        self.root = tmp
        self.obs = []

    def path(self, p):
        return os.path.join(self.root, p)

    def arr(self, name, n, atom=(), dtype='float64', bo='little', base=1):
        return rp.values(self.np, n, atom, dtype, bo, base)

    def lst(self, name, n, atom=(), base=1):
        return rp.values(self.np, n, atom, 'int64', 'little', base).tolist()

    def dump(self, p):
        """observable on-disk state of a directory tree"""
        out = {}
        full = self.path(p)
        if not os.path.lexists(full):
            return None
        for dp, dns, fns in os.walk(full):
            rel = os.path.relpath(dp, full)
            for fn in sorted(fns):
                fp = os.path.join(dp, fn)
                key = os.path.normpath(os.path.join(rel, fn))
                if fn.endswith('.json'):
                    try:
                        out[key] = ('json', json.load(open(fp)))
                    except ValueError:
                        out[key] = ('badjson',)
                elif fn.endswith('.bin'):
                    out[key] = ('bin', open(fp, 'rb').read().hex())
                else:
                    out[key] = ('text',)
            for dn in dns:
                out[os.path.normpath(os.path.join(rel, dn))] = ('dir',)
        return out

    def value(self, a):
        """canonical form of an array returned by the API"""
        a = self.np.asarray(a)
        return (a.dtype.str, tuple(a.shape), a.tobytes().hex())

    def dtstr(self, dt):
        return self.np.dtype(dt).str

    def get_json(self, p):
        return json.load(open(self.path(p)))

    def text(self, p):
        return open(self.path(p), encoding='utf-8').read()

    def set_json(self, p, obj=None, text=None):
        with open(self.path(p), 'w') as f:
            f.write(text if text is not None else json.dumps(obj))

    def remove(self, p):
        os.remove(self.path(p))

    def mkfile(self, p, text='x'):
        with open(self.path(p), 'w') as f:
            f.write(text)

    def mkdir(self, p):
        os.makedirs(self.path(p), exist_ok=True)

    def symlink(self, target, p):
        os.symlink(self.path(target), self.path(p))

    def listing(self, p):
        full = self.path(p)
        if not os.path.lexists(full):
            return None
        if not os.path.isdir(full) or os.path.islink(full):
            return 'file'
        out = []
        for dp, dns, fns in os.walk(full, followlinks=False):
            for nm in dns + fns:
                out.append(os.path.relpath(os.path.join(dp, nm), full))
        return sorted(out)

    def resize(self, p, delta):
        fp = self.path(p)
        if delta > 0:
            open(fp, 'ab').write(b'\0' * delta)
        else:
            os.truncate(fp, os.path.getsize(fp) + delta)


class Model:
    kind = 'model'

    def __init__(self, D):
        self.darr = D
        self.np = symnp
        self.root = '/w'
        self.world = symfs.install(symfs.World('/w'))
        holes.reset()
        self.table = {}
        _, self.rnp = rp.real()
        self.obs = []

    def path(self, p):
        return '/w/' + p

    def arr(self, name, n, atom=(), dtype='float64', bo='little', base=1):
        v = rp.values(self.rnp, n, atom, dtype, bo, base)
        self.table[name] = v
        gt = '|' if v.dtype.itemsize == 1 else ('<' if bo == 'little' else '>')
        return symnp.ndarray(symnp.SymDType(dtype, gt), (n,) + tuple(atom), Seq.of(('c', name), n))

    def lst(self, name, n, atom=(), base=1):
        self.table[name] = rp.values(self.rnp, n, atom, 'int64', 'little', base)
        return symnp.SeqInput('int', n, atom, ('c', name))

    # ---- evaluation of provenance on the concrete sources ----
    def evalsrc(self, src, name, atom, upto):
        np_ = self.rnp
        k = src[0]
        if k == 'c':
            return self.table[src[1]]
        if k == 'typed':
            return self.evalsrc(src[2], src[1], atom, upto).astype(src[1])
        if k == 'cast':
            return self.evalsrc(src[2], None, atom, upto).astype(src[1])
        if k == 'zero':
            return np_.zeros((upto,) + tuple(atom), dtype=name)
        if k == 'fill':
            v = src[1]
            if isinstance(v, tuple):          # canonical key of symnp.fill_src: ('f', repr) / ('c', re, im)
                v = float(v[1]) if v[0] == 'f' else complex(float(v[1]), float(v[2]))
            return np_.full((upto,) + tuple(atom), v, dtype=src[2])
        if k == 'lit':
            return np_.array([src[1]]).reshape((1,) + tuple(atom))
        if k == 'sub':
            base = self.evalsrc(src[1], name, None, upto)
            return base[src[2]]
        raise KeyError(f'cannot evaluate source {src!r}')

    def rows_to_array(self, rows, dt, atom):
        np_ = self.rnp
        parts = []
        for s in rows.segs:
            if s.hi - s.lo <= 0:
                continue
            v = self.evalsrc(s.src, dt.name, atom, s.hi)
            parts.append(np_.asarray(v)[s.lo:s.hi].astype(dt.name))
        rdt = np_.dtype(dt.name).newbyteorder(dt.gt if dt.gt != '|' else '=')
        if not parts:
            return np_.zeros((0,) + tuple(atom), dtype=rdt)
        return np_.concatenate(parts, axis=0).astype(rdt)

    def bytes_of(self, node):
        np_ = self.rnp
        out = b''
        for s in node.bin.segs:
            if s.hi - s.lo <= 0:
                continue
            src = s.src
            if src[0] == 'Z':
                out += b'\0' * (s.hi - s.lo)
                continue
            _, name, gt, atom, vsrc = src
            rb = int(np_.prod(atom, dtype=int)) * np_.dtype(name).itemsize if atom else np_.dtype(name).itemsize
            hi_row = -(-s.hi // rb)
            v = np_.asarray(self.evalsrc(vsrc, name, atom, hi_row))
            dt = np_.dtype(name).newbyteorder(gt if gt != '|' else '=')
            b = v.astype(name).astype(dt).tobytes()
            if vsrc[0] == 'lit':
                b = np_.array([vsrc[1]]).astype(name).astype(dt).tobytes()
            out += b[s.lo:s.hi]
        return out.hex()

    def dump(self, p):
        node = self.world.lookup(self.path(p))
        if node is None:
            return None
        out = {}

        def walk(d, rel):
            for k, v in sorted(d.entries.items()):
                key = os.path.normpath(os.path.join(rel, k))
                if isinstance(v, symfs.Dir):
                    out[key] = ('dir',)
                    walk(v, key)
                elif k.endswith('.json'):
                    t = v.text
                    if isinstance(t, symfs.JsonDoc):
                        out[key] = ('json', json.loads(json.dumps(t.obj)))
                    else:
                        out[key] = ('badjson',)
                elif k.endswith('.bin'):
                    out[key] = ('bin', self.bytes_of(v) if v.bin is not None else '')
                else:
                    out[key] = ('text',)
        walk(node, '.')
        return out

    def value(self, a):
        if not isinstance(a, symnp.ndarray):
            v = self.rnp.asarray(a)
            return (v.dtype.str, tuple(v.shape), v.tobytes().hex())
        shape = tuple(int(x) for x in a.shape)
        atom = shape[1:] if shape else ()
        v = self.rows_to_array(a._rows(), a.dtype, atom).reshape(shape)
        return (v.dtype.str, shape, v.tobytes().hex())

    def dtstr(self, dt):
        return symnp.dtype(dt).str

    def get_json(self, p):
        return json.loads(json.dumps(self.world.lookup(self.path(p)).text.obj))

    def text(self, p):
        t = self.world.lookup(self.path(p)).text
        return t if isinstance(t, str) else repr(t)

    def set_json(self, p, obj=None, text=None):
        node = self.world.lookup(self.path(p))
        if text is not None:
            node.text = text
        else:
            node.text = symfs.JsonDoc(obj)

    def remove(self, p):
        symfs.unlink(self.path(p))

    def mkfile(self, p, text='x'):
        f = symfs.File()
        f.text = text
        f.bin = None
        self.world.put(self.path(p), f)

    def mkdir(self, p):
        self.world.mkdirs(self.path(p))

    def symlink(self, target, p):
        self.world.put(self.path(p), symfs.Symlink(self.path(target)))

    def listing(self, p):
        node = self.world.lookup(self.path(p), follow=False)
        if node is None:
            return None
        if not isinstance(node, symfs.Dir):
            return 'file'
        out = []

        def walk(d, rel):
            for k, v in d.entries.items():
                out.append(os.path.normpath(os.path.join(rel, k)))
                if isinstance(v, symfs.Dir):
                    walk(v, os.path.join(rel, k))
        walk(node, '.')
        return sorted(out)

    def resize(self, p, delta):
        node = self.world.lookup(self.path(p))
        n = node.bin.length()
        if delta > 0:
            node.bin = node.bin.concat(Seq.of(('Z',), delta))
        else:
            node.bin = node.bin.cut(0, n + delta)


def attempt(B, tag, fn):
    try:
        r = fn()
        B.obs.append((tag, 'ok'))
        return r
    except Exception as e:
        B.obs.append((tag, 'raised', type(e).__name__))
        return None


def handle(B, tag, a):
    B.obs.append((tag, 'shape', tuple(int(x) for x in a.shape), 'dtype', B.dtstr(a.dtype),
                  'len', int(len(a)), 'size', int(a.size), 'nbytes', int(a.nbytes)))
    B.obs.append((tag, 'value', B.value(a[:])))


# ---- scenarios -------------------------------------------------------------------------------------
def array_basic(B):
    d = B.darr
    for i, (dt, bo, atom, n) in enumerate([('int32', 'little', (), 5), ('float64', 'big', (2,), 4),
                                            ('uint8', 'little', (2, 3), 3), ('complex64', 'big', (), 2),
                                            ('float16', 'little', (1,), 6), ('int64', 'big', (), 24)]):
        p = f'a{i}'
        a = attempt(B, f'asarray{i}', lambda: d.asarray(B.path(p), B.arr(f'x{i}', n, atom, dt, bo),
                                                       chunklen=2))
        handle(B, f'h{i}', a)
        handle(B, f'fresh{i}', d.Array(B.path(p)))
        B.obs.append((f'dump{i}', B.dump(p)))
    a = attempt(B, 'aslist', lambda: d.asarray(B.path('l'), B.lst('l', 7), chunklen=3))
    handle(B, 'hl', a)
    B.obs.append(('dumpl', B.dump('l')))
    a = attempt(B, 'aslist_dtype', lambda: d.asarray(B.path('l2'), B.lst('l2', 7, (2,)), dtype='float32'))
    handle(B, 'hl2', a)
    B.obs.append(('dumpl2', B.dump('l2')))
    attempt(B, 'exists', lambda: d.asarray(B.path('l2'), B.lst('l3', 2)))
    a = attempt(B, 'overwrite', lambda: d.asarray(B.path('l2'), B.lst('l4', 2), overwrite=True))
    B.obs.append(('dumpl2b', B.dump('l2')))
    a = attempt(B, 'create', lambda: d.create_array(B.path('c'), shape=(5, 2), dtype='int16', fill=3,
                                                   chunklen=2))
    handle(B, 'hc', a)
    B.obs.append(('dumpc', B.dump('c')))
    a = attempt(B, 'create0', lambda: d.create_array(B.path('c0'), shape=(0, 2), dtype='float32'))
    handle(B, 'hc0', a)
    B.obs.append(('dumpc0', B.dump('c0')))
    attempt(B, 'missing', lambda: d.Array(B.path('nope')))


def array_append(B):
    d = B.darr
    a = d.asarray(B.path('a'), B.arr('x', 4, (2,), 'int32', 'little'), accessmode='r+')
    attempt(B, 'app1', lambda: a.append(B.arr('y', 3, (2,), 'int32', 'little', 50)))
    handle(B, 'h1', a)
    attempt(B, 'app2', lambda: a.append(B.arr('z', 2, (2,), 'float64', 'big', 70)))
    handle(B, 'h2', a)
    attempt(B, 'app3', lambda: a.append(B.lst('w', 2, (2,), 90)))
    handle(B, 'h3', a)
    attempt(B, 'appbad', lambda: a.append(B.arr('bad', 2, (3,), 'int32', 'little')))
    handle(B, 'h4', a)
    attempt(B, 'iter', lambda: a.iterappend(iter([B.arr('i1', 1, (2,), 'int32', 'little', 11),
                                                 B.arr('i2', 2, (2,), 'int8', 'little', 21)])))
    handle(B, 'h5', a)
    handle(B, 'fresh', d.Array(B.path('a')))
    B.obs.append(('dump', B.dump('a')))
    e = d.create_array(B.path('e'), shape=(0,), dtype='float64')
    attempt(B, 'app_empty', lambda: e.append(B.arr('e1', 3, (), 'float64', 'little')))
    handle(B, 'he', e)
    B.obs.append(('dumpe', B.dump('e')))
    r = d.Array(B.path('e'))
    attempt(B, 'app_readonly', lambda: r.append(B.arr('e2', 1, (), 'float64', 'little')))
    B.obs.append(('dumpe2', B.dump('e')))


def array_truncate(B):
    d = B.darr
    a = d.asarray(B.path('a'), B.arr('x', 6, (2,), 'uint16', 'big'), accessmode='r+')
    for i, idx in enumerate([4, -1, 10, 3, 0, 0, -5]):
        attempt(B, f'tr{i}', lambda: d.truncate_array(a, idx))
        handle(B, f'h{i}', a)
    attempt(B, 'trf', lambda: d.truncate_array(a, 1.0))
    attempt(B, 'app', lambda: a.append(B.arr('y', 2, (2,), 'uint16', 'big', 9)))
    handle(B, 'hy', a)
    attempt(B, 'trpath', lambda: d.truncate_array(B.path('a'), 1))
    handle(B, 'fresh', d.Array(B.path('a')))
    B.obs.append(('dump', B.dump('a')))
    attempt(B, 'trnone', lambda: d.truncate_array(B.path('zzz'), 1))


def array_assign(B):
    d = B.darr
    a = d.asarray(B.path('a'), B.arr('x', 6, (), 'float32', 'little'), accessmode='r+')
    attempt(B, 'set', lambda: a.__setitem__(slice(1, 3), 7))
    handle(B, 'h', a)
    attempt(B, 'seti', lambda: a.__setitem__(-1, 9))
    handle(B, 'h2', a)
    attempt(B, 'setbad', lambda: a.__setitem__(17, 9))
    r = d.Array(B.path('a'))
    attempt(B, 'setro', lambda: r.__setitem__(0, 1))
    B.obs.append(('get', B.value(a[2:5])))
    attempt(B, 'getbad', lambda: a[99])
    B.obs.append(('dump', B.dump('a')))


def array_failappend(B):
    d = B.darr

    class Boom(Exception):
        pass
    for tag, n in (('ne', 3), ('e', 0)):
        if n:
            a = d.asarray(B.path(tag), B.arr('x' + tag, n, (2,), 'int32', 'little'), accessmode='r+')
        else:
            a = d.create_array(B.path(tag), shape=(0, 2), dtype='int32')

        def g1():
            yield B.arr('c1' + tag, 2, (2,), 'int32', 'little', 40)
            raise Boom()
        attempt(B, 'boom' + tag, lambda: a.iterappend(g1()))
        handle(B, 'h1' + tag, a)

        def g2():
            yield B.arr('c2' + tag, 1, (2,), 'float64', 'little', 60)
            yield B.arr('c3' + tag, 2, (3,), 'int32', 'little', 70)
        attempt(B, 'shape' + tag, lambda: a.iterappend(g2()))
        handle(B, 'h2' + tag, a)

        def g3():
            yield B.arr('c4' + tag, 1, (2, 2), 'int32', 'little', 80)
        attempt(B, 'rank' + tag, lambda: a.iterappend(g3()))
        handle(B, 'h3' + tag, a)
        handle(B, 'fresh' + tag, d.Array(B.path(tag)))
        dd = B.dump(tag)
        B.obs.append(('dump' + tag, {k: v for k, v in dd.items() if not k.endswith('.json')},
                      dd['arraydescription.json'][1]['shape']))


def handle_ragged(B, tag, ra):
    B.obs.append((tag, 'len', int(len(ra)), 'narrays', int(ra.narrays), 'atom', tuple(int(x) for x in ra.atom),
                  'dtype', B.dtstr(ra.dtype), 'size', int(ra.size)))
    for k in range(-len(ra), len(ra)):
        B.obs.append((tag, k, B.value(ra[k])))
    attempt(B, tag + 'oob', lambda: ra[len(ra)])
    attempt(B, tag + 'oobneg', lambda: ra[-len(ra) - 1])
    attempt(B, tag + 'float', lambda: ra[1.0])


def ragged_basic(B):
    d = B.darr
    items = [B.arr('s0', 2, (2,), 'float64', 'little', 1), B.arr('s1', 0, (2,), 'float64', 'little', 20),
             B.arr('s2', 3, (2,), 'float64', 'little', 30)]
    ra = attempt(B, 'as', lambda: d.asraggedarray(B.path('r'), items, indextype='int16', accessmode='r+',
                                                  metadata={'x': 1}))
    handle_ragged(B, 'h0', ra)
    B.obs.append(('dump0', B.dump('r')))
    attempt(B, 'app', lambda: ra.append(B.arr('s3', 1, (2,), 'int32', 'big', 70)))
    attempt(B, 'applist', lambda: ra.append(B.lst('s4', 2, (2,), 80)))
    attempt(B, 'iterapp', lambda: ra.iterappend([B.arr('s5', 1, (2,), 'float64', 'little', 90),
                                                 B.arr('s6', 0, (2,), 'float64', 'little', 95)]))
    handle_ragged(B, 'h1', ra)
    handle_ragged(B, 'fresh1', d.RaggedArray(B.path('r')))
    B.obs.append(('dump1', B.dump('r')))
    B.obs.append(('iter', [B.value(x) for x in ra.iter_arrays(1, 6, 2)]))
    attempt(B, 'appbad', lambda: ra.append(B.arr('bad', 2, (3,), 'float64', 'little')))
    attempt(B, 'tr', lambda: d.truncate_raggedarray(ra, 4))
    handle_ragged(B, 'h2', ra)
    attempt(B, 'trneg', lambda: d.truncate_raggedarray(ra, -2))
    attempt(B, 'trbad', lambda: d.truncate_raggedarray(ra, 9))
    attempt(B, 'tr0', lambda: d.truncate_raggedarray(B.path('r'), 0))
    r2 = d.RaggedArray(B.path('r'), accessmode='r+')
    handle_ragged(B, 'h3', r2)
    attempt(B, 'app0', lambda: r2.append(B.arr('s7', 2, (2,), 'float64', 'little', 5)))
    handle_ragged(B, 'h4', r2)
    B.obs.append(('dump2', B.dump('r')))
    c = attempt(B, 'create', lambda: d.create_raggedarray(B.path('c'), atom=(), dtype='int32'))
    handle_ragged(B, 'hc', c)
    attempt(B, 'capp', lambda: c.append(B.arr('c1', 3, (), 'int32', 'little', 5)))
    handle_ragged(B, 'hc1', c)
    B.obs.append(('dumpc', B.dump('c')))
    ro = d.RaggedArray(B.path('c'))
    attempt(B, 'roapp', lambda: ro.append(B.arr('c2', 1, (), 'int32', 'little', 5)))
    B.obs.append(('dumpc2', B.dump('c')))


def ragged_fail(B):
    d = B.darr

    class Boom(Exception):
        pass
    for tag, it in (('a', 'int64'), ('b', 'int8')):
        ra = d.asraggedarray(B.path(tag), [B.arr('s0' + tag, 2, (), 'float32', 'little', 1)], indextype=it,
                             accessmode='r+')

        def g1():
            yield B.arr('g1' + tag, 1, (), 'float32', 'little', 10)
            raise Boom()
        attempt(B, 'boom' + tag, lambda: ra.iterappend(g1()))
        attempt(B, 'open1' + tag, lambda: d.RaggedArray(B.path(tag)))
        B.obs.append(('dump1' + tag, B.dump(tag)))
    ra = d.asraggedarray(B.path('c'), [B.arr('c0', 100, (), 'int16', 'little', 1)], indextype='int8',
                         accessmode='r+')
    attempt(B, 'overflow', lambda: ra.append(B.arr('c1', 100, (), 'int16', 'little', 1)))
    attempt(B, 'open2', lambda: d.RaggedArray(B.path('c')))
    dd = B.dump('c')
    B.obs.append(('dump2', dd))
    rb = d.asraggedarray(B.path('e'), [B.arr('e0', 2, (2,), 'int16', 'little', 1)], accessmode='r+')
    attempt(B, 'wrongatom', lambda: rb.iterappend([B.arr('e1', 1, (2,), 'int16', 'little', 9),
                                                    B.arr('e2', 1, (3,), 'int16', 'little', 9)]))
    attempt(B, 'open3', lambda: d.RaggedArray(B.path('e')))
    B.obs.append(('dump3', B.dump('e')))


def readonly(B):
    d = B.darr
    for tag, n in (('n3', 3), ('n0', 0)):
        if n:
            d.asarray(B.path(tag), B.arr('x' + tag, n, (2,), 'int32', 'little'), metadata={'k': 1, 'z': [1, 2]})
        else:
            d.create_array(B.path(tag), shape=(0, 2), dtype='int32', metadata={'k': 1, 'z': [1, 2]})
        a = d.Array(B.path(tag))
        attempt(B, 'set' + tag, lambda: a.__setitem__(slice(None), 1))
        attempt(B, 'app' + tag, lambda: a.append(B.arr('c' + tag, 1, (2,), 'int32', 'little', 7)))
        attempt(B, 'mdu' + tag, lambda: a.metadata.update({'n': 1}))
        attempt(B, 'mdp' + tag, lambda: a.metadata.pop('k'))
        attempt(B, 'mdpi' + tag, lambda: a.metadata.popitem())
        attempt(B, 'tr' + tag, lambda: d.truncate_array(a, 0))
        B.obs.append(('dumpA' + tag, B.dump(tag)))
        a.accessmode = 'r+'
        attempt(B, 'mdu2' + tag, lambda: a.metadata.update({'n': 1}))
        attempt(B, 'mdp2' + tag, lambda: a.metadata.pop('k'))
        B.obs.append(('md' + tag, sorted(a.metadata.keys())))
        attempt(B, 'mdpi2' + tag, lambda: a.metadata.popitem())
        attempt(B, 'mdpi3' + tag, lambda: a.metadata.popitem())
        B.obs.append(('dumpB' + tag, B.dump(tag)))
        a.accessmode = 'r'
        attempt(B, 'del' + tag, lambda: d.delete_array(a))
        B.obs.append(('dumpC' + tag, B.dump(tag)))
        a.accessmode = 'r+'
        attempt(B, 'del2' + tag, lambda: d.delete_array(a))
        B.obs.append(('dumpD' + tag, B.dump(tag)))
    d.asraggedarray(B.path('r'), [B.arr('r0', 2, (), 'float64', 'little')], metadata={'k': 1})
    r = d.RaggedArray(B.path('r'))
    attempt(B, 'rapp', lambda: r.append(B.arr('r1', 1, (), 'float64', 'little', 9)))
    attempt(B, 'rtr', lambda: d.truncate_raggedarray(r, 0))
    attempt(B, 'rdel', lambda: d.delete_raggedarray(r))
    attempt(B, 'rmd', lambda: r.metadata.update({'q': 2}))
    B.obs.append(('dumpR', B.dump('r')))
    r.accessmode = 'r+'
    attempt(B, 'rmd2', lambda: r.metadata.update({'q': 2}))
    attempt(B, 'rapp2', lambda: r.append(B.arr('r2', 1, (), 'float64', 'little', 9)))
    B.obs.append(('dumpR2', B.dump('r')))
    attempt(B, 'rdel2', lambda: d.delete_raggedarray(r))
    B.obs.append(('dumpR3', B.dump('r')))


def metadata(B):
    d = B.darr
    a = d.asarray(B.path('m'), B.arr('x', 3, (), 'int32', 'little'), accessmode='r+')
    md = a.metadata

    def view(tag):
        B.obs.append((tag, sorted((k, json.dumps(v, sort_keys=True)) for k, v in md.items()), len(md),
                      'a' in md, md.get('a'), md.get('q', 5)))
        dd = B.dump('m')
        B.obs.append((tag + 'file', dd.get('metadata.json')))
    view('v0')
    attempt(B, 'set', lambda: md.__setitem__('a', 1))
    view('v1')
    attempt(B, 'upd', lambda: md.update({'b': [1, (2, 3)], 'c': {'x': None, 'y': 2.5}}, d='kw'))
    view('v2')
    attempt(B, 'np', lambda: md.update({'e': B.np.int64(7) if B.kind == 'real' else B.np.int64(7)}))
    view('v3')
    attempt(B, 'bad', lambda: md.update({'f': object()}))
    view('v4')
    attempt(B, 'badkey', lambda: md.update({(1, 2): 3}))
    view('v5')
    B.obs.append(('pop', md.pop('a')))
    attempt(B, 'popmissing', lambda: md.pop('zz'))
    B.obs.append(('popd', md.pop('zz', 9)))
    B.obs.append(('popitem', list(md.popitem())))
    view('v6')
    attempt(B, 'del', lambda: md.__delitem__('b'))
    attempt(B, 'delmissing', lambda: md.__delitem__('b'))
    while len(md):
        B.obs.append(('popitem', json.dumps(list(md.popitem()))))
    view('v7')
    attempt(B, 'popitemempty', lambda: md.popitem())
    attempt(B, 'getmissing', lambda: md['nope'])
    fresh = d.Array(B.path('m'))
    B.obs.append(('fresh', sorted(fresh.metadata.keys())))
    attempt(B, 'ro', lambda: fresh.metadata.update({'x': 1}))


def baddescr(B):
    d = B.darr
    cases = [
        ('nokey', lambda js: js.pop('shape')), ('nokey2', lambda js: js.pop('byteorder')),
        ('numtype', lambda js: js.update(numtype='int24')), ('numtype2', lambda js: js.update(numtype=5)),
        ('bo', lambda js: js.update(byteorder='middle')), ('order', lambda js: js.update(arrayorder='K')),
        ('ver', lambda js: js.update(darrversion='not a version')),
        ('newer', lambda js: js.update(darrversion='99.0.0')),
        ('shapef', lambda js: js.update(shape=[2.0, 2])), ('shapeb', lambda js: js.update(shape=[True, 2])),
        ('shapeb0', lambda js: js.update(shape=[False, 2])),
        ('shapeneg', lambda js: js.update(shape=[-3, 2])), ('shapenegneg', lambda js: js.update(shape=[-3, -2])),
        ('shapes', lambda js: js.update(shape='ab')), ('shapei', lambda js: js.update(shape=3)),
        ('shapen', lambda js: js.update(shape=[[3, 2]])), ('isize', lambda js: js.update(numtype='int64')),
        ('forder', lambda js: js.update(arrayorder='F')),
    ]
    for tag, f in cases:
        d.asarray(B.path(tag), B.arr('x' + tag, 3, (2,), 'int32', 'little'))
        js = B.get_json(tag + '/arraydescription.json')
        f(js)
        B.set_json(tag + '/arraydescription.json', js)
        attempt(B, 'open' + tag, lambda: d.Array(B.path(tag)))
        attempt(B, 'openrw' + tag, lambda: d.Array(B.path(tag), accessmode='r+'))
        attempt(B, 'dopen' + tag, lambda: d.open(B.path(tag)))
        attempt(B, 'del' + tag, lambda: d.delete_array(B.path(tag)))
        attempt(B, 'tr' + tag, lambda: d.truncate_array(B.path(tag), 1))
        B.obs.append(('dump' + tag, sorted(B.dump(tag) or [])))
    for tag, txt in (('txt', 'not json'), ('empty', ''), ('list', '[1, 2]'), ('num', '5')):
        d.asarray(B.path(tag), B.arr('x' + tag, 3, (), 'float64', 'little'))
        B.set_json(tag + '/arraydescription.json', text=txt)
        attempt(B, 'open' + tag, lambda: d.Array(B.path(tag)))
        attempt(B, 'dopen' + tag, lambda: d.open(B.path(tag)))
        attempt(B, 'del' + tag, lambda: d.delete_array(B.path(tag)))
    for tag, delta in (('long', 3), ('short', -1), ('short8', -8), ('long8', 8)):
        d.asarray(B.path(tag), B.arr('x' + tag, 3, (), 'float64', 'little'))
        B.resize(tag + '/arrayvalues.bin', delta)
        attempt(B, 'open' + tag, lambda: d.Array(B.path(tag)))
        attempt(B, 'tr' + tag, lambda: d.truncate_array(B.path(tag), 1))
        B.obs.append(('dump' + tag, B.dump(tag)['arrayvalues.bin'][1][-6:]))
    d.asarray(B.path('nofile'), B.arr('xn', 3, (), 'float64', 'little'))
    B.remove('nofile/arraydescription.json')
    attempt(B, 'opennofile', lambda: d.Array(B.path('nofile')))
    attempt(B, 'dopennofile', lambda: d.open(B.path('nofile')))
    d.asraggedarray(B.path('r'), [B.arr('r0', 2, (), 'float64', 'little')])
    B.resize('r/values/arrayvalues.bin', 8)
    attempt(B, 'ropen', lambda: d.RaggedArray(B.path('r')))
    attempt(B, 'rdel', lambda: d.delete_raggedarray(B.path('r')))
    attempt(B, 'rtr', lambda: d.truncate_raggedarray(B.path('r'), 0))


def foreign(B):
    d = B.darr
    B.mkdir('outside/tdir')
    B.mkfile('outside/tdir/keep.txt')
    B.mkfile('outside/target.txt')
    for i, kind in enumerate(['none', 'file', 'dir', 'dirfile', 'linkfile', 'linkdir', 'collide']):
        for tgt in ('a', 'r'):
            tag = f'{tgt}{i}'
            if tgt == 'a':
                d.asarray(B.path(tag), B.arr('x' + tag, 2, (), 'int32', 'little'))
                where = tag
            else:
                d.asraggedarray(B.path(tag), [B.arr('x' + tag, 2, (), 'int32', 'little')])
                where = tag + ('/values' if i % 2 else '/indices' if i % 3 == 0 else '')
            if kind == 'file':
                B.mkfile(where + '/notes.txt')
            elif kind == 'dir':
                B.mkdir(where + '/sub')
            elif kind == 'dirfile':
                B.mkdir(where + '/sub')
                B.mkfile(where + '/sub/inner.txt')
            elif kind == 'linkfile':
                B.symlink('outside/target.txt', where + '/link')
            elif kind == 'linkdir':
                B.symlink('outside/tdir', where + '/linkd')
            elif kind == 'collide':
                B.mkdir(where + '/metadata.json')
                B.mkfile(where + '/metadata.json/inner.txt')
            if tgt == 'a':
                attempt(B, 'del' + tag, lambda: d.delete_array(B.path(tag)))
            else:
                attempt(B, 'del' + tag, lambda: d.delete_raggedarray(B.path(tag)))
            B.obs.append(('ls' + tag, B.listing(tag)))
    B.obs.append(('outside', B.listing('outside')))
    # creators on occupied paths
    d.asarray(B.path('occ'), B.arr('occ', 3, (), 'float64', 'little'), metadata={'old': 1})
    B.mkfile('occ/user.txt')
    attempt(B, 'as_no', lambda: d.asarray(B.path('occ'), B.arr('n1', 2, (), 'int32', 'little')))
    attempt(B, 'cr_no', lambda: d.create_array(B.path('occ'), shape=(2,)))
    attempt(B, 'ras_no', lambda: d.asraggedarray(B.path('occ'), [B.arr('n2', 2, (), 'int32', 'little')]))
    attempt(B, 'rcr_no', lambda: d.create_raggedarray(B.path('occ')))
    B.obs.append(('occ1', B.dump('occ')))
    attempt(B, 'as_ow', lambda: d.asarray(B.path('occ'), B.arr('n3', 2, (), 'int32', 'little'), overwrite=True))
    B.obs.append(('occ2', B.dump('occ'), B.listing('occ')))
    attempt(B, 'ras_ow', lambda: d.asraggedarray(B.path('occ'), [B.arr('n4', 2, (), 'int32', 'little')], overwrite=True))
    B.obs.append(('occ3', B.listing('occ')))
    B.mkfile('plainfile')
    attempt(B, 'as_file', lambda: d.asarray(B.path('plainfile'), B.arr('n5', 2, (), 'int32', 'little')))
    attempt(B, 'as_file_ow', lambda: d.asarray(B.path('plainfile'), B.arr('n6', 2, (), 'int32', 'little'), overwrite=True))
    attempt(B, 'del_file', lambda: d.delete_array(B.path('plainfile')))
    B.obs.append(('plain', B.listing('plainfile')))
    a = d.asarray(B.path('src'), B.arr('src', 2, (), 'int32', 'little'))
    attempt(B, 'copy_no', lambda: a.copy(B.path('occ')))
    attempt(B, 'arch', lambda: a.archive(B.path('arc.tar.xz')))
    attempt(B, 'arch_again', lambda: a.archive(B.path('arc.tar.xz')))
    attempt(B, 'arch_ow', lambda: a.archive(B.path('arc.tar.xz'), overwrite=True))
    attempt(B, 'arch_bad', lambda: a.archive(B.path('arc2'), compressiontype='zip'))
    B.obs.append(('arc', B.listing('arc.tar.xz'), B.listing('arc2')))


def datadir(B):
    d = B.darr
    a = d.asarray(B.path('a'), B.arr('x', 2, (), 'int32', 'little'), accessmode='r+')
    dd = a.datadir
    for nm in ['README.txt', './README.txt', 'arrayvalues.bin', 'x/../arrayvalues.bin', 'notes.txt', 'sub/notes.txt',
               'metadata.json', './/arraydescription.json', 'README.txt/']:
        attempt(B, 'wt' + nm, lambda: dd.write_txt(nm, 'text'))
        attempt(B, 'wt2' + nm, lambda: dd.write_txt(nm, 'text2', overwrite=True))
        attempt(B, 'wj' + nm, lambda: dd.write_jsondict(nm, {'a': 1}, overwrite=True))
        attempt(B, 'uj' + nm, lambda: dd.update_jsondict(nm, {'b': 2}))
        attempt(B, 'del' + nm, lambda: dd.delete_files([nm]))
        B.obs.append(('ls' + nm, B.listing('a')))
    attempt(B, 'wjbad', lambda: dd.write_jsondict('j.json', [1]))
    attempt(B, 'wj', lambda: dd.write_jsondict('j.json', {'k': (1, 2)}))
    attempt(B, 'wjagain', lambda: dd.write_jsondict('j.json', {'k': 1}))
    B.obs.append(('rj', dd.read_jsondict('j.json')))
    attempt(B, 'rjreq', lambda: dd.read_jsondict('j.json', requiredkeys=['zz']))
    attempt(B, 'wt', lambda: dd.write_txt('t.txt', 'abc'))
    B.obs.append(('rt', dd.read_txt('t.txt')))
    attempt(B, 'open_r', lambda: dd.open_file('README.txt', 'r').__enter__().close())
    attempt(B, 'open_w', lambda: dd.open_file('README.txt', 'w').__enter__())
    attempt(B, 'open_a_user', lambda: dd.open_file('t.txt', 'a').__enter__().close())
    B.obs.append(('dump', B.dump('a')['arrayvalues.bin']))


def creation(B):
    d = B.darr
    np_ = B.np
    a = attempt(B, 'dtypearg', lambda: d.asarray(B.path('a1'), B.arr('x1', 5, (2,), 'int32', 'big'), dtype='float32', chunklen=2))
    handle(B, 'h1', a)
    B.obs.append(('d1', B.dump('a1')))
    a = attempt(B, 'samebig', lambda: d.asarray(B.path('a2'), B.arr('x2', 4, (), 'float64', 'big'), dtype='float64'))
    handle(B, 'h2', a)
    B.obs.append(('d2', B.dump('a2')))

    def it():
        yield B.arr('i1', 2, (2,), 'int16', 'big', 1)
        yield B.arr('i2', 0, (2,), 'float64', 'little', 10)
        yield B.arr('i3', 3, (2,), 'float64', 'little', 20)
    a = attempt(B, 'iter', lambda: d.asarray(B.path('a3'), it()))
    handle(B, 'h3', a)
    B.obs.append(('d3', B.dump('a3')))
    a = attempt(B, 'iterdt', lambda: d.asarray(B.path('a4'), it(), dtype='float32'))
    handle(B, 'h4', a)
    src = d.asarray(B.path('src'), B.arr('s', 5, (), 'int16', 'little'))
    a = attempt(B, 'fromdarr', lambda: d.asarray(B.path('a5'), src, chunklen=2))
    handle(B, 'h5', a)
    a = attempt(B, 'scalar', lambda: d.asarray(B.path('a6'), 3.5))
    handle(B, 'h6', a)
    a = attempt(B, 'scalarint', lambda: d.asarray(B.path('a7'), 3, dtype='int8'))
    handle(B, 'h7', a)
    B.obs.append(('d7', B.dump('a7')))
    a = attempt(B, 'create', lambda: d.create_array(B.path('c1'), shape=(7, 2), dtype='float32', fill=2, chunklen=3))
    handle(B, 'hc1', a)
    a = attempt(B, 'createint', lambda: d.create_array(B.path('c2'), shape=5, dtype='int8'))
    handle(B, 'hc2', a)
    B.obs.append(('dc2', B.dump('c2')))
    attempt(B, 'fillboth', lambda: d.create_array(B.path('c3'), shape=5, fill=1, fillfunc=lambda i: i))
    attempt(B, 'samepath', lambda: d.asarray(B.path('src'), src))
    attempt(B, 'emptynd', lambda: d.asarray(B.path('e1'), B.arr('e', 0, (2,), 'int32', 'little'), dtype='int32'))
    B.obs.append(('de1', B.dump('e1')))


def copying(B):
    d = B.darr
    a = d.asarray(B.path('s'), B.arr('x', 5, (2,), 'int32', 'big'), metadata={'m': [1, {'n': None}]})
    c = attempt(B, 'copy', lambda: a.copy(B.path('c1'), chunklen=2))
    handle(B, 'hc1', c)
    B.obs.append(('dc1', B.dump('c1')))
    c = attempt(B, 'copydt', lambda: a.copy(B.path('c2'), dtype='float32'))
    handle(B, 'hc2', c)
    B.obs.append(('mc2', sorted(c.metadata.keys())))
    attempt(B, 'copyexists', lambda: a.copy(B.path('c2')))
    e = d.create_array(B.path('e'), shape=(0, 2), dtype='int16')
    c = attempt(B, 'copyempty', lambda: e.copy(B.path('c3')))
    handle(B, 'hc3', c)
    r = d.asraggedarray(B.path('r'), [B.arr('r0', 2, (), 'float64', 'big'), B.arr('r1', 0, (), 'float64', 'big')],
                        metadata={'k': 1})
    rc = attempt(B, 'rcopy', lambda: r.copy(B.path('rc')))
    handle_ragged(B, 'hrc', rc)
    rc2 = attempt(B, 'rcopydt', lambda: r.copy(B.path('rc2'), dtype='float32'))
    handle_ragged(B, 'hrc2', rc2)
    B.obs.append(('drc2', B.dump('rc2')))
    er = d.create_raggedarray(B.path('er'), atom=(2,), dtype='int16')
    rc3 = attempt(B, 'rcopyempty', lambda: er.copy(B.path('rc3')))
    if rc3 is not None:
        handle_ragged(B, 'hrc3', rc3)
    B.obs.append(('ls', B.listing('rc3')))


def interleave(B):
    d = B.darr
    a = d.asarray(B.path('a'), B.arr('x', 7, (), 'int32', 'little'), accessmode='r+')
    g = a.iterchunks(3)
    B.obs.append(('c0', B.value(next(g))))
    with a.open_array():
        B.obs.append(('r', B.value(a[0:2])))
        attempt(B, 'w', lambda: a.__setitem__(slice(0, 1), 9))
        with a.open_array():
            B.obs.append(('c1', B.value(next(g))))
        B.obs.append(('r2', B.value(a[0:2])))
    B.obs.append(('c2', B.value(next(g))))
    attempt(B, 'stop', lambda: next(g))
    handle(B, 'h', a)
    g2 = a.iterchunks(2, stepsize=3, startindex=1, endindex=6, include_remainder=False)
    B.obs.append(('g2', [B.value(x) for x in g2]))
    B.obs.append(('idx', list(a.iterindices(2, stepsize=3, startindex=1, endindex=7))))
    attempt(B, 'badend', lambda: list(a.iterindices(2, endindex=9)))
    attempt(B, 'badstart', lambda: list(a.iterindices(2, startindex=7)))


def readme(B):
    d = B.darr
    a = d.asarray(B.path('a'), B.arr('x', 5, (2, 3), 'int32', 'big'), accessmode='r+')
    B.obs.append(('r0', B.text('a/README.txt')))
    a.append(B.arr('y', 2, (2, 3), 'int32', 'big', 50))
    B.obs.append(('r1', B.text('a/README.txt')))
    a.metadata['k'] = 1
    B.obs.append(('r2', B.text('a/README.txt')))
    a.metadata.pop('k')
    d.truncate_array(a, 1)
    B.obs.append(('r3', B.text('a/README.txt')))
    for i, (nt, at) in enumerate([('float16', ()), ('complex64', (2,)), ('uint64', ()), ('int8', (1, 2, 3)),
                                  ('complex128', ()), ('float32', (4,)), ('int64', ())]):
        d.asarray(B.path(f't{i}'), B.arr(f't{i}', 3, at, nt, 'little' if i % 2 else 'big'))
        B.obs.append((f't{i}', B.text(f't{i}/README.txt')))
    r = d.asraggedarray(B.path('r'), [B.arr(f's{i}', i % 3, (2,), 'float64', 'little', 10 * i) for i in range(7)],
                        accessmode='r+')
    B.obs.append(('rr0', B.text('r/README.txt'), B.text('r/values/README.txt'), B.text('r/indices/README.txt')))
    r.append(B.arr('s9', 4, (2,), 'float64', 'little', 99))
    B.obs.append(('rr1', B.text('r/README.txt'), B.text('r/indices/README.txt')))
    d.truncate_raggedarray(r, 5)
    B.obs.append(('rr2', B.text('r/README.txt')))
    c = d.create_raggedarray(B.path('c'), atom=(), dtype='int16')
    B.obs.append(('rc', B.text('c/README.txt'), B.text('c/indices/README.txt')))
    for lang in ('matlab', 'R', 'julia', 'idl', 'mathematica', 'maple', 'scilab', 'numpymemmap', 'darr'):
        B.obs.append(('rl' + lang, r.readcode(lang)))
    B.obs.append(('langs', list(a.readcodelanguages), list(r.readcodelanguages)))


SCENARIOS = {f.__name__: f for f in [array_basic, array_append, array_truncate, array_assign,
                                        array_failappend, ragged_basic, ragged_fail, readonly, metadata, baddescr, foreign, datadir, creation, copying, interleave, readme]}


def run(names, stub_readme=True):
    D = loader.load(env=True, stub_readme=stub_readme, pkg=None if stub_readme else 'darrsym_readme')
    mismatches = []
    count = 0
    for nm in names:
        f = SCENARIOS[nm]
        with rp.scratch() as tmp:
            R = Real(tmp)
            try:
                import warnings
                with warnings.catch_warnings():
                    warnings.simplefilter('ignore')
                    f(R)
            except Exception:
                mismatches.append(f'{nm}: real side crashed: {traceback.format_exc()[-600:]}')
                continue
        M = Model(D)
        try:
            import warnings
            with warnings.catch_warnings():
                warnings.simplefilter('ignore')
                f(M)
        except BaseException:
            mismatches.append(f'{nm}: model side crashed: {traceback.format_exc()[-900:]}')
            continue
        count += 1
        if len(R.obs) != len(M.obs):
            mismatches.append(f'{nm}: {len(R.obs)} real observations vs {len(M.obs)} model')
        for ro, mo in zip(R.obs, M.obs):
            if json.dumps(ro, sort_keys=True, default=str) != json.dumps(mo, sort_keys=True, default=str):
                mismatches.append(f'{nm}: real {str(ro)[:300]} != model {str(mo)[:300]}')
                break
    return {'scenarios': count, 'mismatches': mismatches, 'names': list(names)}


if __name__ == '__main__':
    r = run(sys.argv[1:] or list(SCENARIOS))
    print(json.dumps(r, indent=1)[:6000])
