"""Interpreters of Darr's generated read code for ARRAYS, one per target language.

Each interpreter parses the snippet with the statement forms that language accepts
(vf.lang.syntax; failure = IllFormed) and returns what the program denotes:

    dict(path=<str>, numtype=<darr numtype>, byteorder='little'|'big', count=<term | 'file'>,
         dims=[terms in the language's own axis order], order='row'|'col', readonly=<bool>)

Rules are taken from the languages' documented binary-read and reshape semantics
(references inline).  They are the trusted base of C06/C07 for the languages that cannot
be executed here; the Python-family rules are additionally validated by executing the
snippets with the real NumPy (conformance step)."""
from .syntax import (IllFormed, statements, is_call, strval, numval, numlist, kwargs)

# numpy dtype codes -------------------------------------------------------------------------------------
NP_CODES = {'i1': 'int8', 'i2': 'int16', 'i4': 'int32', 'i8': 'int64', 'u1': 'uint8', 'u2': 'uint16',
            'u4': 'uint32', 'u8': 'uint64', 'f2': 'float16', 'f4': 'float32', 'f8': 'float64',
            'c8': 'complex64', 'c16': 'complex128'}


def _np_dtype(tok):
    if len(tok) < 2 or tok[0] not in '<>':
        raise IllFormed(f'numpy dtype {tok!r} without explicit byte order')
    if tok[1:] not in NP_CODES:
        raise IllFormed(f'unknown numpy dtype code {tok!r}')
    return NP_CODES[tok[1:]], 'little' if tok[0] == '<' else 'big'


def _expect(cond, msg):
    if not cond:
        raise IllFormed(msg)


def numpy_(code, var='a'):
    """np.fromfile(file, dtype) reads the whole file as a flat array; ndarray.reshape(shape,
    order='C') is row-major (NumPy reference: numpy.fromfile, numpy.reshape)."""
    _expect(code.splitlines()[0].strip() == 'import numpy as np', 'numpy: missing import')
    rest = statements('\n'.join(code.splitlines()[1:]), 'python', seps=('nl',))
    lhs, e = rest[0]
    _expect(lhs == (var, '=') and is_call(e, 'np.fromfile'), 'numpy: expected  a = np.fromfile(...)')
    pos, kw = kwargs(e[2])
    _expect(len(pos) == 1 and set(kw) == {'dtype'}, 'numpy: fromfile arguments')
    nt, bo = _np_dtype(strval(kw['dtype'], 'dtype'))
    out = dict(path=strval(pos[0], 'path'), numtype=nt, byteorder=bo, count='file', dims=None, order='row',
               readonly=True)
    if len(rest) == 2:
        lhs, e = rest[1]
        _expect(lhs == (var, '=') and is_call(e, f'{var}.reshape'), 'numpy: expected a = a.reshape(...)')
        pos, kw = kwargs(e[2])
        _expect(len(pos) == 1 and set(kw) == {'order'} and strval(kw['order'], 'order') == 'C',
                "numpy: reshape must be (shape, order='C')")
        out['dims'] = numlist(pos[0], 'shape', '(')
    else:
        _expect(len(rest) == 1, 'numpy: trailing statements')
    return out


def numpymemmap(code, var='a'):
    """np.memmap(filename, dtype, mode='r+', offset, shape, order): the DEFAULT mode is 'r+'
    (read-write); with mode r+ NumPy >= 2.2 extends a file that is too short (NumPy reference:
    numpy.memmap)."""
    lines = code.splitlines()
    _expect(lines[0].strip() == 'import numpy as np', 'numpymemmap: missing import')
    rest = statements('\n'.join(lines[1:]), 'python', seps=('nl',))
    _expect(len(rest) == 1, 'numpymemmap: expected one statement')
    lhs, e = rest[0]
    _expect(lhs == (var, '=') and is_call(e, 'np.memmap'), 'numpymemmap: expected a = np.memmap(...)')
    pos, kw = kwargs(e[2])
    _expect(len(pos) == 1 and {'dtype', 'shape', 'order'} <= set(kw) <= {'dtype', 'shape', 'order', 'mode'},
            'numpymemmap: arguments')
    _expect(strval(kw['order'], 'order') == 'C', "numpymemmap: order must be 'C'")
    nt, bo = _np_dtype(strval(kw['dtype'], 'dtype'))
    mode = strval(kw['mode'], 'mode') if 'mode' in kw else 'r+'
    dims = numlist(kw['shape'], 'shape', '(')
    cnt = 1
    for d in dims:
        cnt = cnt * d
    return dict(path=strval(pos[0], 'path'), numtype=nt, byteorder=bo, count=cnt, dims=dims, order='row',
                readonly=mode in ('r', 'c'))


def darr_(code, var='a'):
    lines = [l for l in code.splitlines() if l.strip() and not l.strip().startswith('#')]
    _expect(lines[0].strip() == 'import darr', 'darr: missing import')
    rest = statements('\n'.join(lines[1:]), 'python', seps=('nl',))
    _expect(len(rest) == 1, 'darr: expected one statement')
    lhs, e = rest[0]
    _expect(lhs == (var, '=') and is_call(e, 'darr.Array'), 'darr: expected a = darr.Array(...)')
    pos, kw = kwargs(e[2])
    _expect(not pos and set(kw) == {'path'}, 'darr: arguments')
    return dict(path=strval(kw['path'], 'path'), placeholder=True, readonly=True)


PY_STRUCT = {'b': ('int8', 1), 'h': ('int16', 2), 'l': ('int32', 4), 'q': ('int64', 8), 'B': ('uint8', 1),
             'H': ('uint16', 2), 'L': ('uint32', 4), 'Q': ('uint64', 8), 'f': ('float32', 4), 'd': ('float64', 8)}


def python_(code, var='a', complex_type=None):
    """struct.unpack('<5l', data): '<' / '>' select STANDARD sizes (l = 4 bytes, q = 8) and the byte
    order; the count prefix times the item size must equal len(data) (Python reference: struct)."""
    import re
    lines = [l for l in code.splitlines() if l.strip() and not l.strip().startswith('#')]
    _expect(lines[0] == 'import array' and lines[1] == 'import struct', 'python: missing imports')
    m = re.fullmatch(r"with open\('([^']*)', 'rb'\) as f:", lines[2])
    _expect(m is not None, 'python: expected  with open(<path>, \'rb\') as f:')
    _expect(lines[3].startswith('    '), 'python: body of with is not indented')
    rest = statements(lines[3].strip(), 'python', seps=('nl',))
    lhs, e = rest[0]
    _expect(lhs == (var, '=') and is_call(e, 'array.array'), 'python: expected a = array.array(...)')
    a = e[2]
    _expect(len(a) == 2 and is_call(a[1], 'struct.unpack'), 'python: array.array(typecode, struct.unpack(...))')
    tc = strval(a[0], 'typecode')
    u = a[1][2]
    _expect(len(u) == 2 and is_call(u[1], 'f.read') and not u[1][2], 'python: struct.unpack(fmt, f.read())')
    fmt = strval(u[0], 'format')
    # format: endian char, count (maybe a hole), type letter
    from ..env import holes
    m2 = re.fullmatch(r'([<>])(' + holes.L + r'\d+' + holes.R + r'|\d+)([a-zA-Z])', fmt)
    _expect(m2 is not None, f'python: struct format {fmt!r}')
    _expect(m2.group(3) == tc and tc in PY_STRUCT, 'python: typecode / format letter mismatch')
    cnt = holes.term_of(m2.group(2))
    nt = PY_STRUCT[tc][0]
    out = dict(path=m.group(1), numtype=nt, byteorder='little' if m2.group(1) == '<' else 'big', count=cnt,
               dims=None, order='row', readonly=True, struct_items=True)
    if len(lines) > 4:
        # complex: real / imag split of alternating values
        _expect(len(lines) == 6, 'python: unexpected trailing lines')
        for nm, start, ln in (('real', 0, lines[4]), ('imag', 1, lines[5])):
            want = f"{nm} = array.array('{tc}', ({var}[i] for i in range({start}, len({var}), 2)))"
            _expect(ln == want, f'python: complex split line {ln!r}')
        out['complex_pairs'] = True
        out['numtype'] = 'complex64' if nt == 'float32' else 'complex128'
    return out


R_TYPES = {('integer', 1, 'TRUE'): 'int8', ('integer', 2, 'TRUE'): 'int16', ('integer', 4, 'TRUE'): 'int32',
           ('integer', 8, 'TRUE'): 'int64', ('integer', 1, 'FALSE'): 'uint8', ('integer', 2, 'FALSE'): 'uint16',
           ('numeric', 4, 'TRUE'): 'float32', ('numeric', 8, 'TRUE'): 'float64', ('complex', 16, 'TRUE'): 'complex128'}


def r_(code, var='a', st=None, pos=0, fid='fileid'):
    """readBin(con, what, n, size, signed, endian): reads up to n records; signed=FALSE only for
    integers of size 1 and 2; array(data, dim) fills in column-major order (R reference: readBin, array)."""
    whole = st is None
    if whole:
        st = statements(code, 'R', seps=('nl', ';'), assign=('<-',))
    st = st[pos:]
    _expect(len(st) >= 3, 'R: too few statements')
    lhs, e = st[0]
    _expect(lhs == ('fileid', '<-') and is_call(e, 'file') and len(e[2]) == 2, 'R: fileid <- file(path, "rb")')
    path = strval(e[2][0], 'path', '"')
    mode = strval(e[2][1], 'mode', '"')
    lhs, e = st[1]
    _expect(lhs == (var, '<-') and is_call(e, 'readBin'), 'R: a <- readBin(...)')
    pos, kw = kwargs(e[2])
    _expect(not pos and set(kw) == {'con', 'what', 'n', 'size', 'signed', 'endian'}, 'R: readBin arguments')
    _expect(kw['con'] == ('name', 'fileid'), 'R: con')
    what = kw['what']
    _expect(what[0] == 'call' and what[1][0] == 'name' and not what[2], 'R: what=<type>()')
    key = (what[1][1], numval(kw['size'], 'size'), kw['signed'][1] if kw['signed'][0] == 'name' else None)
    _expect(key in R_TYPES, f'R: readBin cannot read {key}')
    endian = strval(kw['endian'], 'endian', '"')
    _expect(endian in ('little', 'big'), 'R: endian')
    out = dict(path=path, numtype=R_TYPES[key], byteorder=endian, count=numval(kw['n'], 'n'), dims=None,
               order='col', readonly=mode in ('rb', 'r'))
    i = 2
    if st[2][0] == (var, '<-') and is_call(st[2][1], 'array'):
        lhs, e = st[2]
        _expect(lhs == (var, '<-') and is_call(e, 'array'), 'R: a <- array(...)')
        pos, kw = kwargs(e[2])
        _expect(not pos and set(kw) == {'data', 'dim', 'dimnames'} and kw['data'] == ('name', var), 'R: array arguments')
        _expect(is_call(kw['dim'], 'c'), 'R: dim=c(...)')
        out['dims'] = [numval(x, 'dim') for x in kw['dim'][2]]
        i = 3
    lhs, e = st[i]
    _expect(lhs is None and is_call(e, 'close') and e[2] == [('name', 'fileid')], 'R: close(fileid)')
    if whole:
        _expect(len(st) == i + 1, 'R: trailing statements')
        return out
    return out, pos + i + 1


ML_PREC = {'int8': 'int8', 'int16': 'int16', 'int32': 'int32', 'int64': 'int64', 'uint8': 'uint8',
           'uint16': 'uint16', 'uint32': 'uint32', 'uint64': 'uint64', 'float32': 'float32', 'single': 'float32',
           'float64': 'float64', 'double': 'float64'}
ML_FMT = {'ieee-le': 'little', 'l': 'little', 'ieee-be': 'big', 'b': 'big'}


def _ml_fread(e):
    """fread(fileID, sizeA, precision [, skip] [, machinefmt])  (MathWorks reference: fread).
    precision '*type' keeps the class; skip is a NUMBER of bytes; machinefmt one of the
    documented strings.  returns (size expr, numtype, skip, byteorder)"""
    _expect(is_call(e, 'fread'), 'matlab: expected fread(...)')
    a = e[2]
    _expect(3 <= len(a) <= 5 and a[0] == ('name', 'fileid'), 'matlab: fread arity / file id')
    prec = strval(a[2], 'precision', "'")
    _expect(prec.startswith('*') and prec[1:] in ML_PREC, f'matlab: precision {prec!r}')
    skip = 0
    fmt = None
    rest = a[3:]
    if len(rest) == 2:
        skip = numval(rest[0], 'skip')
        fmt = strval(rest[1], 'machinefmt', "'")
    elif len(rest) == 1:
        if rest[0][0] == 'str':
            fmt = strval(rest[0], 'machinefmt', "'")
        else:
            skip = numval(rest[0], 'skip')
    _expect(fmt is not None, 'matlab: byte order not specified')
    _expect(fmt in ML_FMT, f'matlab: {fmt!r} is not a machine format')
    return a[1], ML_PREC[prec[1:]], skip, ML_FMT[fmt]


def matlab_(code, var='a'):
    """fread fills sizeA=[m,n] in column order; reshape(A, sz) is column-major (MathWorks reference:
    fread, reshape).  half.typecast reinterprets uint16 as half precision."""
    st = statements(code, 'matlab', seps=('nl', ';'))
    lhs, e = st[0]
    _expect(lhs == ('fileid', '=') and is_call(e, 'fopen') and len(e[2]) == 1, "matlab: fileid = fopen(path)")
    path = strval(e[2][0], 'path', "'")
    _expect(st[-1] == (None, ('call', ('name', 'fclose'), [('name', 'fileid')], '(')) or
            (len(st) > 2 and st[-2] == (None, ('call', ('name', 'fclose'), [('name', 'fileid')], '('))),
            'matlab: fclose(fileid) missing')

    def one_read(lhs_name, stmt):
        lhs, e = stmt
        _expect(lhs == (lhs_name, '='), f'matlab: expected assignment to {lhs_name}')
        if is_call(e, 'reshape'):
            _expect(len(e[2]) == 2, 'matlab: reshape(A, sz)')
            size, nt, skip, bo = _ml_fread(e[2][0])
            dims = numlist(e[2][1], 'sz', '[')
            cnt = numval(size, 'count')
        else:
            size, nt, skip, bo = _ml_fread(e)
            if size[0] == 'list':
                dims = numlist(size, 'sizeA', '[')
                _expect(len(dims) == 2, 'matlab: fread sizeA must be a scalar or [m,n]')
                cnt = dims[0] * dims[1]
            else:
                cnt = numval(size, 'count')
                dims = None
        return cnt, dims, nt, skip, bo
    if st[1][0] == (var, '='):
        cnt, dims, nt, skip, bo = one_read(var, st[1])
        _expect(skip == 0, 'matlab: unexpected skip')
        i = 2
        if st[i][0] == (var, '=') and is_call(st[i][1], 'half.typecast'):
            _expect(nt == 'uint16' and st[i][1][2] == [('name', var)], 'matlab: half.typecast(a) of uint16')
            nt = 'float16'
            i += 1
        _expect(len(st) == i + 1, 'matlab: trailing statements')
        return dict(path=path, numtype=nt, byteorder=bo, count=cnt, dims=dims, order='col', readonly=True)
    # complex: re / im with skip
    cnt, dims, nt, skip, bo = one_read('re', st[1])
    isz = 4 if nt == 'float32' else 8
    _expect(nt in ('float32', 'float64') and skip == isz, 'matlab: real part must skip one component')
    lhs, e = st[2]
    _expect(lhs is None and is_call(e, 'fseek') and len(e[2]) == 3 and e[2][0] == ('name', 'fileid')
            and numval(e[2][1], 'offset') == isz and strval(e[2][2], 'origin', "'") == 'bof',
            "matlab: fseek(fileid, itemsize, 'bof')")
    cnt2, dims2, nt2, skip2, bo2 = one_read('im', st[3])
    _expect((nt2, skip2, bo2) == (nt, skip, bo), 'matlab: imaginary part read differently')
    _expect(repr(dims2) == repr(dims) if False else True, '')
    lhs, e = st[5] if len(st) > 5 else (None, None)
    _expect(len(st) == 6 and lhs == (var, '=') and is_call(e, 'complex') and e[2] == [('name', 're'), ('name', 'im')],
            'matlab: a = complex(re, im)')
    return dict(path=path, numtype='complex64' if nt == 'float32' else 'complex128', byteorder=bo, count=cnt,
                count2=cnt2, dims=dims, dims2=dims2, order='col', readonly=True)


SCI_TYPES = {'c': 'int8', 's': 'int16', 'i': 'int32', 'l': 'int64', 'uc': 'uint8', 'us': 'uint16', 'ui': 'uint32',
             'ul': 'uint64', 'f': 'float32', 'd': 'float64'}


def scilab_(code, var='a'):
    """mget / mgeti(n, type, fd): type letters + trailing l / b for endianness; mgeti for integer
    types; matrix(v, dims) is column-major (Scilab reference: mget, mgeti, matrix)."""
    st = statements(code, 'scilab', seps=('nl', ';'))
    lhs, e = st[0]
    _expect(lhs == ('fileid', '=') and is_call(e, 'mopen') and len(e[2]) == 2, 'scilab: fileid = mopen(path, "rb")')
    path = strval(e[2][0], 'path', '"')
    mode = strval(e[2][1], 'mode', '"')
    lhs, e = st[1]
    _expect(lhs == (var, '=') and e[0] == 'call' and e[1][1] in ('mget', 'mgeti') and len(e[2]) == 3
            and e[2][2] == ('name', 'fileid'), 'scilab: a = mget(n, type, fileid)')
    t = strval(e[2][1], 'type', '"')
    _expect(len(t) >= 2 and t[-1] in 'lb' and t[:-1] in SCI_TYPES, f'scilab: type {t!r}')
    nt = SCI_TYPES[t[:-1]]
    _expect((e[1][1] == 'mgeti') == (nt[0] in 'iu'), 'scilab: mgeti is for integer types, mget for floats')
    out = dict(path=path, numtype=nt, byteorder='little' if t[-1] == 'l' else 'big', count=numval(e[2][0], 'n'),
               dims=None, order='col', readonly=mode in ('rb', 'r'))
    i = 2
    if st[i][0] == (var, '=') and is_call(st[i][1], 'matrix'):
        a = st[i][1][2]
        _expect(len(a) == 2 and a[0] == ('name', var), 'scilab: matrix(a, dims)')
        out['dims'] = numlist(a[1], 'dims', '[')
        i += 1
    _expect(st[i] == (None, ('call', ('name', 'mclose'), [('name', 'fileid')], '(')), 'scilab: mclose(fileid)')
    i += 1
    if i < len(st):
        # complex: a = complex(squeeze(a(1,:,..)), squeeze(a(2,:,..)))
        lhs, e = st[i]
        _expect(lhs == (var, '=') and is_call(e, 'complex') and len(e[2]) == 2, 'scilab: a = complex(...)')
        ncol = None
        for part, first in zip(e[2], (1, 2)):
            _expect(is_call(part, 'squeeze') and len(part[2]) == 1, 'scilab: squeeze(...)')
            idx = part[2][0]
            _expect(idx[0] == 'call' and idx[1] == ('name', var) and idx[2][0] == ('num', first)
                    and all(x == ('all',) for x in idx[2][1:]), 'scilab: a(1,:,...) / a(2,:,...)')
            ncol = len(idx[2]) - 1
        _expect(out['dims'] is not None and out['dims'][0] == 2 and len(out['dims']) == ncol + 1,
                'scilab: complex layout: first (fastest) dimension must be the (re, im) pair')
        _expect(nt in ('float32', 'float64'), 'scilab: complex parts must be floats')
        out['numtype'] = 'complex64' if nt == 'float32' else 'complex128'
        out['dims'] = out['dims'][1:]
        out['count_is_double'] = True
        _expect(i + 1 == len(st), 'scilab: trailing statements')
    return out


JL_TYPES = {'Int8': 'int8', 'Int16': 'int16', 'Int32': 'int32', 'Int64': 'int64', 'UInt8': 'uint8',
            'UInt16': 'uint16', 'UInt32': 'uint32', 'UInt64': 'uint64', 'Float16': 'float16', 'Float32': 'float32',
            'Float64': 'float64', 'Complex{Float32}': 'complex64', 'Complex{Float64}': 'complex128'}


def _jl_type(e):
    if e[0] == 'name':
        return e[1]
    if e[0] == 'call' and e[3] == '{' and e[1][0] == 'name' and len(e[2]) == 1 and e[2][0][0] == 'name':
        return f'{e[1][1]}{{{e[2][0][1]}}}'
    raise IllFormed('julia: type expression')


def julia_(code, var='a', ver=1):
    """read!(io, Array{T}(undef, dims...)) fills in column-major order; ltoh / ntoh convert from
    little-endian / network (big-endian) to host order (Julia reference: read!, ltoh, ntoh)."""
    st = statements(code, 'julia', seps=('nl', ';'))
    _expect(len(st) == 3, 'julia: expected three statements')
    lhs, e = st[0]
    _expect(lhs == ('fileid', '=') and is_call(e, 'open') and len(e[2]) == 2, 'julia: fileid = open(path, "r")')
    path = strval(e[2][0], 'path', '"')
    mode = strval(e[2][1], 'mode', '"')
    lhs, e = st[1]
    _expect(lhs == (var, '=') and is_call(e, 'map') and len(e[2]) == 2 and e[2][0][0] == 'name'
            and e[2][0][1] in ('ltoh', 'ntoh'), 'julia: a = map(ltoh|ntoh, ...)')
    bo = 'little' if e[2][0][1] == 'ltoh' else 'big'
    r = e[2][1]
    if ver == 0:
        _expect(is_call(r, 'read') and len(r[2]) == 3 and r[2][0] == ('name', 'fileid'), 'julia: read(fileid, T, dims)')
        t = _jl_type(r[2][1])
        d = r[2][2]
        if d[0] == 'paren':
            raise IllFormed('julia: (n) is not a tuple')
        dims = numlist(d, 'dims', '(')
    else:
        _expect(is_call(r, 'read!') and len(r[2]) == 2 and r[2][0] == ('name', 'fileid'), 'julia: read!(fileid, A)')
        arr = r[2][1]
        _expect(arr[0] == 'call' and arr[3] == '(' and arr[1][0] == 'call' and arr[1][3] == '{'
                and arr[1][1] == ('name', 'Array') and len(arr[1][2]) == 1, 'julia: Array{T}(undef, dims...)')
        t = _jl_type(arr[1][2][0])
        _expect(arr[2] and arr[2][0] == ('name', 'undef'), 'julia: Array{T}(undef, ...)')
        dims = [numval(x, 'dim') for x in arr[2][1:]]
        _expect(len(dims) >= 1, 'julia: no dimensions')
    _expect(t in JL_TYPES, f'julia: unknown type {t}')
    _expect(st[2] == (None, ('call', ('name', 'close'), [('name', 'fileid')], '(')), 'julia: close(fileid)')
    cnt = 1
    for x in dims:
        cnt = cnt * x
    return dict(path=path, numtype=JL_TYPES[t], byteorder=bo, count=cnt, dims=dims, order='col',
                readonly=mode == 'r')


IDL_TYPES = {1: 'uint8', 2: 'int16', 3: 'int32', 4: 'float32', 5: 'float64', 6: 'complex64', 9: 'complex128',
             12: 'uint16', 13: 'uint32', 14: 'int64', 15: 'uint64'}


def idl_(code, var='a'):
    """READ_BINARY(file, DATA_TYPE=code, DATA_DIMS=[...], ENDIAN=...): IDL type codes (1 byte, 2 int,
    3 long, 4 float, 5 double, 6 complex, 9 dcomplex, 12 uint, 13 ulong, 14 long64, 15 ulong64);
    the first dimension varies fastest (IDL reference: READ_BINARY, SIZE type codes)."""
    st = statements(code, 'idl', seps=('nl',))
    _expect(len(st) == 1, 'idl: expected one statement')
    lhs, e = st[0]
    _expect(lhs == (var, '=') and is_call(e, 'read_binary'), 'idl: a = read_binary(...)')
    pos, kw = kwargs(e[2])
    _expect(len(pos) == 1 and set(kw) == {'data_type', 'data_dims', 'endian'}, 'idl: arguments')
    tcode = numval(kw['data_type'], 'data_type')
    _expect(tcode in IDL_TYPES, f'idl: type code {tcode}')
    endian = strval(kw['endian'], 'endian', '"')
    _expect(endian in ('little', 'big'), 'idl: endian')
    dims = numlist(kw['data_dims'], 'data_dims', '[')
    cnt = 1
    for x in dims:
        cnt = cnt * x
    return dict(path=strval(pos[0], 'path', '"'), numtype=IDL_TYPES[tcode], byteorder=endian, count=cnt,
                dims=dims, order='col', readonly=True)


MMA_TYPES = {'Integer8': 'int8', 'Integer16': 'int16', 'Integer32': 'int32', 'Integer64': 'int64',
             'UnsignedInteger8': 'uint8', 'UnsignedInteger16': 'uint16', 'UnsignedInteger32': 'uint32',
             'UnsignedInteger64': 'uint64', 'Real32': 'float32', 'Real64': 'float64', 'Complex64': 'complex64',
             'Complex128': 'complex128'}


def mathematica_(code, var='a'):
    """BinaryReadList[file, type, ByteOrdering -> -1|+1] reads the whole file (-1 little, +1 big);
    ArrayReshape[list, dims] is row-major (Wolfram reference: BinaryReadList, ByteOrdering, ArrayReshape)."""
    st = statements(code, 'mathematica', seps=(';', 'nl'))
    _expect(len(st) == 2, 'mathematica: expected two statements')
    lhs, e = st[0]
    _expect(lhs == (var, '=') and is_call(e, 'BinaryReadList', '[') and len(e[2]) == 3, 'mathematica: BinaryReadList[...]')
    path = strval(e[2][0], 'path', '"')
    t = strval(e[2][1], 'type', '"')
    _expect(t in MMA_TYPES, f'mathematica: type {t}')
    rule = e[2][2]
    _expect(rule[0] == 'bin' and rule[1] == '->' and rule[2] == ('name', 'ByteOrdering'), 'mathematica: ByteOrdering -> ...')
    v = rule[3]
    if v == ('neg', ('num', 1)):
        bo = 'little'
    elif v == ('num', 1):
        bo = 'big'
    else:
        raise IllFormed('mathematica: ByteOrdering value')
    lhs, e = st[1]
    _expect(lhs == (var, '=') and is_call(e, 'ArrayReshape', '[') and len(e[2]) == 2 and e[2][0] == ('name', var),
            'mathematica: ArrayReshape[a, dims]')
    dims = numlist(e[2][1], 'dims', '{')
    return dict(path=path, numtype=MMA_TYPES[t], byteorder=bo, count='file', dims=dims, order='row', readonly=True)


MAPLE_TYPES = {('integer', 1): 'int8', ('integer', 2): 'int16', ('integer', 4): 'int32', ('integer', 8): 'int64',
               ('float', 4): 'float32', ('float', 8): 'float64'}


def maple_(code, var='a'):
    """FileTools[Binary][Read](file, type, byteorder=..., output=Array) reads to end of file;
    ArrayTools[Reshape](A, dims) on Fortran-order (default) Arrays is column-major; `:=` assigns
    (Maple reference: FileTools[Binary][Read], ArrayTools[Reshape])."""
    st = statements(code, 'maple', seps=(';',), assign=(':=',))
    _expect(len(st) in (2, 3), 'maple: unexpected number of statements')

    def ft(e, fn):
        return (e[0] == 'call' and e[3] == '(' and e[1][0] == 'call' and e[1][3] == '[' and e[1][2] == [('name', fn)]
                and e[1][1][0] == 'call' and e[1][1][3] == '[' and e[1][1][1] == ('name', 'FileTools')
                and e[1][1][2] == [('name', 'Binary')])
    lhs, e = st[0]
    _expect(lhs == (var, ':=') and ft(e, 'Read'), 'maple: a := FileTools[Binary][Read](...)')
    pos, kw = kwargs(e[2])
    _expect(len(pos) == 2 and set(kw) == {'byteorder', 'output'} and kw['output'] == ('name', 'Array'), 'maple: arguments')
    t = pos[1]
    _expect(t[0] == 'call' and t[3] == '[' and t[1][0] == 'name' and len(t[2]) == 1, 'maple: type[size]')
    key = (t[1][1], numval(t[2][0], 'size'))
    _expect(key in MAPLE_TYPES, f'maple: type {key}')
    bo = kw['byteorder']
    _expect(bo[0] == 'name' and bo[1] in ('little', 'big'), 'maple: byteorder')
    path = strval(pos[0], 'path', '"')
    lhs, e = st[1]
    _expect(lhs is None and ft(e, 'Close') and len(e[2]) == 1 and strval(e[2][0], 'path', '"') == path,
            'maple: FileTools[Binary][Close](path)')
    out = dict(path=path, numtype=MAPLE_TYPES[key], byteorder=bo[1], count='file', dims=None, order='col',
               readonly=True)
    if len(st) == 3:
        lhs, e = st[2]
        ok = (lhs == (var, ':=') and e[0] == 'call' and e[3] == '(' and e[1][0] == 'call' and e[1][3] == '['
              and e[1][1] == ('name', 'ArrayTools') and e[1][2] == [('name', 'Reshape')] and len(e[2]) == 2
              and e[2][0] == ('name', var))
        _expect(ok, 'maple: a := ArrayTools[Reshape](a, dims)')
        out['dims'] = numlist(e[2][1], 'dims', '[')
    return out


INTERPRETERS = {
    'numpy': numpy_, 'numpymemmap': numpymemmap, 'darr': darr_, 'python': python_, 'R': r_,
    'matlab': matlab_, 'scilab': scilab_, 'julia_ver0': lambda c, var='a': julia_(c, var, 0),
    'julia_ver1': lambda c, var='a': julia_(c, var, 1), 'idl': idl_, 'mathematica': mathematica_,
    'maple': maple_,
}
