"""Generic tokenizer / expression parser for the statement forms Darr's generated read code
uses in its target languages.  Deliberately strict: anything that does not parse is
'not well-formed' (IllFormed).  Symbolic numbers appear as holes  ⟦k⟧  and are mapped back
to their terms (vf.env.holes)."""
import re

from ..env import holes


class IllFormed(Exception):
    """the generated program is not a well-formed program of its language"""


COMMENT = {
    'matlab': [r'%[^\n]*'],
    'R': [r'#[^\n]*'],
    'julia': [r'#[^\n]*'],
    'maple': [r'#[^\n]*'],
    'python': [r'#[^\n]*'],
    'idl': [r'(?m)^\s*;[^\n]*'],
    'scilab': [r'/\*.*?\*/', r'//[^\n]*'],
    'mathematica': [r'\(\*.*?\*\)'],
}

TOKEN = re.compile(
    r'(?P<str>"[^"\n]*"|\'[^\'\n]*\')'
    r'|(?P<hole>' + holes.L + r'\d+' + holes.R + ')'
    r'|(?P<num>\d+(?:\.\d+)?)'
    r'|(?P<name>[A-Za-z_][A-Za-z0-9_]*(?:[.!][A-Za-z_][A-Za-z0-9_]*|!)*)'
    r'|(?P<op>:=|<-|->|\.\.|;;|==|<=|>=|[-+*/:;,=(){}\[\]<>@?&|^~.])'
    r'|(?P<nl>\n)'
    r'|(?P<ws>[ \t\r]+)'
    r'|(?P<bad>.)', re.S)


def strip_comments(text, lang):
    """comments are blanked out (same length, newlines kept) so that offsets stay valid"""
    for pat in COMMENT[lang]:
        text = re.sub(pat, lambda m: re.sub(r'[^\n]', ' ', m.group()), text, flags=re.S)
    return text


def tokenize(text, lang, matlab_strings=False):
    text = strip_comments(text, lang)
    toks = []
    for m in TOKEN.finditer(text):
        k = m.lastgroup
        v = m.group()
        if k == 'ws':
            continue
        if k == 'bad':
            raise IllFormed(f'unexpected character {v!r}')
        sp = (m.start(), m.end())
        if k == 'str':
            toks.append(('str', v[1:-1], v[0], sp))
        elif k == 'hole':
            toks.append(('num', holes.term_of(v), sp))
        elif k == 'num':
            if '.' in v:
                raise IllFormed('unexpected real literal')
            toks.append(('num', int(v), sp))
        elif k == 'name':
            toks.append(('name', v, sp))
        elif k == 'nl':
            toks.append(('nl', sp))
        else:
            toks.append(('op', v, sp))
    return toks


class Parser:
    """expr grammar: binary ops (lowest first)  ->  :  ..  ;;   + -   * /  ; unary -;
    postfix call / index with (), [], {} ; lists [a, b] {a, b} ; empty arguments."""

    def __init__(self, toks):
        self.t = toks
        self.i = 0

    def peek(self):
        return self.t[self.i] if self.i < len(self.t) else ('eof',)

    def next(self):
        tok = self.peek()
        self.i += 1
        return tok

    def at_op(self, *ops):
        p = self.peek()
        return p[0] == 'op' and p[1] in ops

    def expect_op(self, op):
        if not self.at_op(op):
            raise IllFormed(f'expected {op!r}, found {self.peek()!r}')
        self.next()

    def expr(self, stop=()):
        return self.binary(0, stop)

    LEVELS = [('->',), ('==', '<', '>', '<=', '>='), (':', '..', ';;'), ('+', '-'), ('*', '/')]

    def binary(self, lvl, stop):
        if lvl == len(self.LEVELS):
            return self.unary(stop)
        left = self.binary(lvl + 1, stop)
        while self.at_op(*self.LEVELS[lvl]) and self.peek()[1] not in stop:
            op = self.next()[1]
            right = self.binary(lvl + 1, stop)
            left = ('bin', op, left, right)
        return left

    def unary(self, stop):
        if self.at_op('-'):
            self.next()
            return ('neg', self.unary(stop))
        if self.at_op('+'):
            self.next()
            return self.unary(stop)
        return self.postfix(stop)

    def args(self, close):
        """comma separated arguments up to `close`; empty slots allowed; name=expr keywords"""
        out = []
        if self.at_op(close):
            self.next()
            return out
        while True:
            while self.peek()[0] == 'nl':
                self.next()
            if self.at_op(',') or self.at_op(close):
                out.append(('empty',))
            elif self.at_op(':') and (self.t[self.i + 1][0] == 'op' and self.t[self.i + 1][1] in (',', close)):
                self.next()
                out.append(('all',))
            elif self.at_op('*') and (self.t[self.i + 1][0] == 'op' and self.t[self.i + 1][1] in (',', close)):
                self.next()
                out.append(('all',))
            elif self.at_op('..') and (self.t[self.i + 1][0] == 'op' and self.t[self.i + 1][1] in (',', close)):
                self.next()
                out.append(('all',))
            elif (self.peek()[0] == 'name' and self.t[self.i + 1][0] == 'op' and self.t[self.i + 1][1] == '='
                  and not (self.t[self.i + 2][0] == 'op' and self.t[self.i + 2][1] == '=')):
                nm = self.next()[1]
                self.next()
                out.append(('kw', nm, self.expr(stop=(',', close))))
            else:
                out.append(self.expr(stop=(',', close)))
            while self.peek()[0] == 'nl':
                self.next()
            if self.at_op(','):
                self.next()
                continue
            self.expect_op(close)
            return out

    def primary(self, stop):
        tok = self.next()
        if tok[0] == 'num':
            return ('num', tok[1])
        if tok[0] == 'str':
            return ('str', tok[1], tok[2])
        if tok[0] == 'name':
            return ('name', tok[1])
        if tok[0] == 'op' and tok[1] == '(':
            items = self.args(')')
            if len(items) == 1 and items[0][0] not in ('kw', 'empty', 'all'):
                return ('paren', items[0])
            return ('list', '(', items)
        if tok[0] == 'op' and tok[1] == '[':
            return ('list', '[', self.args(']'))
        if tok[0] == 'op' and tok[1] == '{':
            return ('list', '{', self.args('}'))
        if tok[0] == 'op' and tok[1] == '@':
            # matlab anonymous function @(k) expr
            self.expect_op('(')
            params = self.args(')')
            body = self.expr(stop=stop)
            return ('lambda', params, body)
        raise IllFormed(f'unexpected token {tok!r}')

    def postfix(self, stop):
        e = self.primary(stop)
        while True:
            if self.at_op('('):
                self.next()
                e = ('call', e, self.args(')'), '(')
            elif self.at_op('['):
                self.next()
                if self.at_op('['):           # Mathematica Part  v[[ ... ]]
                    self.next()
                    a = self.args(']')
                    self.expect_op(']')
                    e = ('call', e, a, '[[')
                else:
                    e = ('call', e, self.args(']'), '[')
            elif self.at_op('{'):
                self.next()
                e = ('call', e, self.args('}'), '{')
            else:
                return e


def statements(text, lang, seps=(';', 'nl'), assign=('=',), spans=False):
    """split into statements at top-level separators and parse each as  [lhs ASSIGN] expr.
    With spans=True returns (statements, [(start, end) character span of each statement])."""
    toks = tokenize(text, lang)
    out = []
    cur = []
    depth = 0
    for tok in toks + [('nl', (len(text), len(text)))]:
        if tok[0] == 'op' and tok[1] in '([{':
            depth += 1
        if tok[0] == 'op' and tok[1] in ')]}':
            depth -= 1
            if depth < 0:
                raise IllFormed('unbalanced brackets')
        is_sep = depth == 0 and ((tok[0] == 'nl' and 'nl' in seps) or (tok[0] == 'op' and tok[1] in seps))
        if is_sep:
            if cur:
                out.append(cur)
            cur = []
        elif tok[0] != 'nl':
            cur.append(tok)
    if depth != 0:
        raise IllFormed('unbalanced brackets')
    if cur:
        out.append(cur)          # last statement without a terminating separator
    res = []
    sp = []
    for st in out:
        sp.append((st[0][-1][0], st[-1][-1][1]))
        p = Parser(st + [('eof',)])
        lhs = None
        # assignment?
        if len(st) >= 2 and st[0][0] == 'name' and st[1][0] == 'op' and st[1][1] in assign + (':=', '<-', '='):
            op = st[1][1]
            p.i = 2
            lhs = (st[0][1], op)
        e = p.expr()
        if p.peek()[0] != 'eof':
            raise IllFormed(f'trailing tokens in statement: {p.peek()!r}')
        res.append((lhs, e))
    if spans:
        return res, sp
    return res


# ---- small helpers for the per-language checkers ------------------------------------------------------------
def is_call(e, name, brk='('):
    return e[0] == 'call' and e[1] == ('name', name) and e[3] == brk


def strval(e, what, quote=None):
    if e[0] != 'str':
        raise IllFormed(f'{what}: expected a string literal')
    if quote is not None and e[2] != quote:
        raise IllFormed(f'{what}: wrong string quote {e[2]}')
    return e[1]


def numval(e, what):
    if e[0] == 'num':
        return e[1]
    if e[0] == 'paren':
        return numval(e[1], what)
    raise IllFormed(f'{what}: expected a number')


def numlist(e, what, brk):
    if e[0] != 'list' or e[1] != brk:
        raise IllFormed(f'{what}: expected a {brk}-bracketed list')
    items = list(e[2])
    if brk == '(' and len(items) >= 2 and items[-1] == ('empty',):
        items = items[:-1]            # one-element tuple (n,)
    return [numval(x, what) for x in items]


def kwargs(args):
    pos = [a for a in args if a[0] != 'kw']
    kw = {a[1]: a[2] for a in args if a[0] == 'kw'}
    return pos, kw
