"""Interpreters of Darr's generated read code for RAGGED arrays.

A ragged program = [read index array i] [read values array v] [accessor for subarray k]
[example statement].  The two embedded reads are interpreted by vf.lang.arraycode; the
accessor is evaluated SYMBOLICALLY: the index array is the function k -> (S, E) with
symbolic start / end, and the interpreter returns which half-open range [lo, hi) of the
stored first axis the accessor selects, under that language's indexing rules (index origin,
end inclusiveness, axis order), plus how a zero-length subarray is delivered.

Indexing rules used (trusted base, from the language references):
  Matlab/Octave, Scilab, Julia, R, Maple: 1-based, a:b (Maple a..b) inclusive; column-major, so
     the stored first axis is the LAST index position and the 2 x n index array is i(row, k);
     Matlab / Scilab / Julia / Maple ranges with b = a-1 are empty; in R  a:b  with a > b counts
     DOWN (so R needs an explicit guard for empty subarrays);
  IDL: 0-based, a:b inclusive, first dimension fastest (column-major), v[*, 5:4] is an error
     (so IDL needs an explicit guard);
  Mathematica: 1-based, a;;b inclusive (empty when b = a-1), row-major: Part acts on the first level;
  Python/NumPy: 0-based, a:b half-open, row-major.
"""
import re

from . import arraycode
from .syntax import IllFormed, Parser, statements, strip_comments, tokenize, is_call, numval
from ..env import holes


def _expect(c, msg):
    if not c:
        raise IllFormed(msg)


def _parse_expr(text, lang):
    toks = tokenize(text, lang)
    toks = [t for t in toks if t[0] != 'nl']
    p = Parser(toks + [('eof',)])
    e = p.expr()
    _expect(p.peek()[0] == 'eof', f'{lang}: trailing tokens in expression {text!r}')
    return e


class Acc:
    """symbolic evaluation context of an accessor"""

    def __init__(self, lang, S, E, kname, kval, origin, colmajor, natom):
        self.lang, self.S, self.E, self.kname, self.kval = lang, S, E, kname, kval
        self.origin, self.colmajor, self.natom = origin, colmajor, natom
        self.env = {kname: kval}

    def ev(self, e):
        t = e[0]
        if t == 'num':
            return e[1]
        if t == 'paren':
            return self.ev(e[1])
        if t == 'neg':
            return -self.ev(e[1])
        if t == 'name':
            _expect(e[1] in self.env, f'{self.lang}: unknown variable {e[1]} in accessor')
            return self.env[e[1]]
        if t == 'bin' and e[1] in '+-*':
            a, b = self.ev(e[2]), self.ev(e[3])
            return a + b if e[1] == '+' else a - b if e[1] == '-' else a * b
        if t == 'call' and e[1] == ('name', 'i'):
            args = e[2]
            _expect(len(args) == 2, f'{self.lang}: the index array has two axes')
            if self.colmajor:
                r, c = self.ev(args[0]), self.ev(args[1])
            else:
                c, r = self.ev(args[0]), self.ev(args[1])
            if not (c == self.kval):
                raise IllFormed(f'{self.lang}: accessor reads the index row of another subarray than k')
            if r == self.origin:
                return self.S
            if r == self.origin + 1:
                return self.E
            raise IllFormed(f'{self.lang}: index array column {r} does not exist')
        raise IllFormed(f'{self.lang}: unsupported expression in accessor: {e!r}')

    def selection(self, idx_args, rangeop, inclusive):
        """v indexed with idx_args: returns (lo, hi) 0-based half-open along the stored first axis"""
        if self.colmajor:
            lead, rng = idx_args[:-1], idx_args[-1]
            _expect(len(lead) == self.natom, f'{self.lang}: {len(lead)} leading placeholders for an atom of rank '
                                             f'{self.natom}')
        else:
            rng, lead = idx_args[0], idx_args[1:]
        _expect(all(x == ('all',) for x in lead), f'{self.lang}: non-range index on an atom axis')
        _expect(rng[0] == 'bin' and rng[1] == rangeop, f'{self.lang}: expected a range {rangeop}')
        lo, hi = self.ev(rng[2]), self.ev(rng[3])
        lo0 = lo - self.origin
        hi0 = hi - self.origin + (1 if inclusive else 0)
        return lo0, hi0


def split_reads(prefix, lang, alang):
    """prefix = text holding exactly the two embedded array reads (i then v)"""
    sep = {'maple': (';',), 'mathematica': (';', 'nl'), 'idl': ('nl',)}.get(lang, ('nl', ';'))
    asg = {'R': ('<-',), 'maple': (':=',)}.get(lang, ('=',))
    sts, spans = statements(prefix, lang if lang != 'julia' else 'julia', seps=sep, assign=asg, spans=True)
    interp = arraycode.INTERPRETERS[alang]
    n = len(sts)
    last = None
    for L in range(1, n):
        ti = prefix[spans[0][0]:spans[L - 1][1]]
        tv = prefix[spans[L][0]:spans[n - 1][1]]
        try:
            di = interp(ti, var='i')
            dv = interp(tv, var='v')
            return di, dv
        except (IllFormed, IndexError, KeyError, TypeError) as e:
            last = e
            continue
    raise IllFormed(f'{lang}: the program does not start with well-formed reads of the index array i and the '
                    f'values array v ({last})')


def _example(text, pattern, lang):
    m = re.fullmatch(pattern, text.strip())
    _expect(m is not None, f'{lang}: the example statement is not a well-formed binding: {text.strip()!r}')
    return int(m.group(1))


def _stated(code, lang):
    m = re.search(r'example to (?:read|get the) (first|second|third) \(k=(\d+)\)', code)
    _expect(m is not None, f'{lang}: example comment missing')
    return m.group(1), int(m.group(2))


def interpret(lang, code, S, E, K, natom):
    """returns dict(iden, vden, lo, hi, empty=(kind, dims) , example_k, stated=(position, k), origin)
    K = the (language-origin) index handed to the accessor (symbolic)."""
    stated = _stated(code, lang)
    if lang == 'darr':
        lines = [l for l in code.splitlines() if l.strip() and not l.strip().startswith('#')]
        _expect(lines[0] == 'import darr' and re.fullmatch(r"a = darr\.RaggedArray\(path='path_to_data_dir'\)", lines[1]),
                'darr: header')
        m = re.fullmatch(r'sa = a\[(\d+)\]', lines[2])
        _expect(m is not None and len(lines) == 3, 'darr: example statement')
        return dict(iden=None, vden=None, lo=S, hi=E, empty=('native', None), example_k=int(m.group(1)),
                    stated=stated, origin=0, via_darr=True)
    if lang == 'numpymemmap':
        lines = [l for l in code.splitlines() if l.strip() and not l.strip().startswith('#')]
        _expect(lines[0] == 'import numpy as np', 'numpymemmap: import')
        di = arraycode.numpymemmap('import numpy as np\n' + lines[1], var='i')
        dv = arraycode.numpymemmap('import numpy as np\n' + lines[2], var='v')
        _expect(lines[3] == 'def getsubarray(k):' and lines[4] == '    starti, endi = i[k]'
                and lines[5] == '    return v[starti:endi]', 'numpymemmap: accessor')
        m = re.fullmatch(r'sa = getsubarray\((\d+)\)', lines[6])
        _expect(m is not None and len(lines) == 7, 'numpymemmap: example statement')
        # i[k] -> (S, E) of row k (0-based); v[S:E] half-open on the first axis
        return dict(iden=di, vden=dv, lo=S, hi=E, empty=('native', None), example_k=int(m.group(1)),
                    stated=stated, origin=0)
    text = strip_comments(code, lang)
    if lang == 'matlab':
        m = re.search(r'getsubarray\s*=\s*@', text)
        _expect(m is not None, 'matlab: accessor missing')
        di, dv = split_reads(text[:m.start()], lang, 'matlab')
        rest = text[m.start():]
        m2 = re.fullmatch(r'\s*getsubarray\s*=\s*@\((\w+)\)\s*(.*?);\s*(sa = getsubarray\(\d+\);)\s*', rest, re.S)
        _expect(m2 is not None, 'matlab: accessor / example statements')
        body = _parse_expr(m2.group(2), lang)
        acc = Acc(lang, S, E, m2.group(1), K, 1, True, natom)
        _expect(body[0] == 'call' and body[1] == ('name', 'v') and body[3] == '(', 'matlab: accessor must index v')
        lo, hi = acc.selection(body[2], ':', True)
        ek = _example(m2.group(3), r'sa = getsubarray\((\d+)\);', lang)
        return dict(iden=di, vden=dv, lo=lo, hi=hi, empty=('range', None), example_k=ek, stated=stated, origin=1)
    if lang == 'scilab':
        m = re.search(r'deff\(', text)
        _expect(m is not None, 'scilab: accessor missing')
        di, dv = split_reads(text[:m.start()], lang, 'scilab')
        m2 = re.fullmatch(r'\s*deff\("sa = getsubarray\((\w+)\)",\s*"sa = (.*?)"\)\s*(sa = getsubarray\(\d+\);)\s*',
                          text[m.start():], re.S)
        _expect(m2 is not None, 'scilab: accessor / example statements')
        body = _parse_expr(m2.group(2), lang)
        acc = Acc(lang, S, E, m2.group(1), K, 1, True, natom)
        _expect(body[0] == 'call' and body[1] == ('name', 'v') and body[3] == '(', 'scilab: accessor must index v')
        lo, hi = acc.selection(body[2], ':', True)
        ek = _example(m2.group(3), r'sa = getsubarray\((\d+)\);', lang)
        return dict(iden=di, vden=dv, lo=lo, hi=hi, empty=('range', None), example_k=ek, stated=stated, origin=1)
    if lang == 'julia':
        m = re.search(r'function getsubarray', text)
        _expect(m is not None, 'julia: accessor missing')
        di, dv = split_reads(text[:m.start()], lang, 'julia_ver1')
        m2 = re.fullmatch(r'\s*function getsubarray\((\w+)\)\s*\n\s*starti = ([^\n]*?)\s*\n\s*endi = ([^\n]*?)\s*\n'
                          r'\s*(v\[[^\n]*\])\s*\nend\s*\n\s*(sa = getsubarray\(\d+\))\s*', text[m.start():], re.S)
        _expect(m2 is not None, 'julia: accessor / example statements')
        acc = Acc(lang, S, E, m2.group(1), K, 1, True, natom)
        acc.env['starti'] = acc.ev(_parse_expr(m2.group(2), lang))
        acc.env['endi'] = acc.ev(_parse_expr(m2.group(3), lang))
        body = _parse_expr(m2.group(4), lang)
        _expect(body[0] == 'call' and body[1] == ('name', 'v') and body[3] == '[', 'julia: accessor must index v')
        lo, hi = acc.selection(body[2], ':', True)
        ek = _example(m2.group(5), r'sa = getsubarray\((\d+)\)', lang)
        return dict(iden=di, vden=dv, lo=lo, hi=hi, empty=('range', None), example_k=ek, stated=stated, origin=1)
    if lang == 'R':
        m = re.search(r'getsubarray <- function', text)
        _expect(m is not None, 'R: accessor missing')
        di, dv = split_reads(text[:m.start()], lang, 'R')
        m2 = re.fullmatch(r'\s*getsubarray <- function\((\w+)\)\{\s*\n\s*starti <- ([^\n]*?)\s*\n\s*endi <- ([^\n]*?)\s*\n'
                          r'\s*if \(starti > endi\) \{\s*\n\s*return \((.*?)\)\s*\n\s*\} else \{\s*\n\s*return \((.*?)\)\s*\n'
                          r'\s*\}\s*\n\}\s*\n\s*(sa (?:=|<-) getsubarray\(\d+\))\s*', text[m.start():], re.S)
        _expect(m2 is not None, 'R: accessor / example statements')
        acc = Acc(lang, S, E, m2.group(1), K, 1, True, natom)
        acc.env['starti'] = acc.ev(_parse_expr(m2.group(2), lang))
        acc.env['endi'] = acc.ev(_parse_expr(m2.group(3), lang))
        body = _parse_expr(m2.group(5), lang)
        _expect(body[0] == 'call' and body[1] == ('name', 'v') and body[3] == '[', 'R: accessor must index v')
        args = [('all',) if a == ('empty',) else a for a in body[2]]
        lo, hi = acc.selection(args, ':', True)
        # the guard: empty iff starti > endi  <=>  S + 1 > E  <=> S == E (since S <= E)
        emp = _parse_expr(m2.group(4), lang)
        if is_call(emp, 'c') and not emp[2]:
            empty = ('guard', [])
        else:
            _expect(is_call(emp, 'array') and len(emp[2]) == 2 and is_call(emp[2][0], 'numeric')
                    and is_call(emp[2][1], 'c'), 'R: empty result must be c() or array(numeric(), c(dims))')
            empty = ('guard', [numval(x, 'dim') for x in emp[2][1][2]])
        ek = _example(m2.group(6), r'sa (?:=|<-) getsubarray\((\d+)\)', lang)
        return dict(iden=di, vden=dv, lo=lo, hi=hi, empty=empty, example_k=ek, stated=stated, origin=1,
                    guard_cond=('starti>endi', acc.env['starti'], acc.env['endi']))
    if lang == 'mathematica':
        m = re.search(r'getsubarray\[', text)
        _expect(m is not None, 'mathematica: accessor missing')
        di, dv = split_reads(text[:m.start()], lang, 'mathematica')
        m2 = re.fullmatch(r'\s*getsubarray\[(\w+)_\?IntegerQ\] :=\s*Module\[\{(\w+)\},\s*(\w+) = (\w+);\s*starti = (.*?);'
                          r'\s*endi = (.*?);\s*(v\[\[.*?\]\])\]\s*(sa = getsubarray\[\d+\])\s*', text[m.start():], re.S)
        _expect(m2 is not None, 'mathematica: accessor / example statements')
        _expect(m2.group(3) == m2.group(2) and m2.group(4) == m2.group(1), 'mathematica: Module local')
        acc = Acc(lang, S, E, m2.group(2), K, 1, False, natom)
        acc.env['starti'] = acc.ev(_parse_expr(m2.group(5), lang))
        acc.env['endi'] = acc.ev(_parse_expr(m2.group(6), lang))
        body = _parse_expr(m2.group(7), lang)
        _expect(body[0] == 'call' and body[1] == ('name', 'v') and body[3] == '[[', 'mathematica: Part of v')
        lo, hi = acc.selection(body[2], ';;', True)
        ek = _example(m2.group(8), r'sa = getsubarray\[(\d+)\]', lang)
        return dict(iden=di, vden=dv, lo=lo, hi=hi, empty=('range', None), example_k=ek, stated=stated, origin=1)
    if lang == 'maple':
        m = re.search(r'getsubarray :=', text)
        _expect(m is not None, 'maple: accessor missing')
        di, dv = split_reads(text[:m.start()], lang, 'maple')
        m2 = re.fullmatch(r'\s*getsubarray := proc \((\w+)::integer\);\s*(v\(.*?\));\s*end proc;\s*(sa\s*\S+\s*getsubarray\(\d+\);)\s*',
                          text[m.start():], re.S)
        _expect(m2 is not None, 'maple: accessor / example statements')
        acc = Acc(lang, S, E, m2.group(1), K, 1, True, natom)
        body = _parse_expr(m2.group(2), lang)
        _expect(body[0] == 'call' and body[1] == ('name', 'v') and body[3] == '(', 'maple: accessor must index v')
        lo, hi = acc.selection(body[2], '..', True)
        ek = _example(m2.group(3), r'sa := getsubarray\((\d+)\);', lang)     # := assigns, = is an equation
        return dict(iden=di, vden=dv, lo=lo, hi=hi, empty=('range', None), example_k=ek, stated=stated, origin=1)
    if lang == 'idl':
        m = re.search(r'(?m)^k = ', text)
        _expect(m is not None, 'idl: accessor missing')
        di, dv = split_reads(text[:m.start()], lang, 'idl')
        m2 = re.fullmatch(r'\s*k = (\d+)\s*\n\s*IF (.*?) EQ (.*?) THEN sa=\[\] ELSE sa=(v\[.*?\])\s*', text[m.start():], re.S)
        _expect(m2 is not None, 'idl: accessor / example statements')
        acc = Acc(lang, S, E, 'k', K, 0, True, natom)
        a, b = acc.ev(_parse_expr(m2.group(2), lang)), acc.ev(_parse_expr(m2.group(3), lang))
        body = _parse_expr(m2.group(4), lang)
        _expect(body[0] == 'call' and body[1] == ('name', 'v') and body[3] == '[', 'idl: accessor must index v')
        lo, hi = acc.selection(body[2], ':', True)
        return dict(iden=di, vden=dv, lo=lo, hi=hi, empty=('guard', None), example_k=int(m2.group(1)), stated=stated,
                    origin=0, guard_cond=('eq', a, b))
    raise IllFormed(f'no interpreter for {lang}')
