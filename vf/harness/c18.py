"""C18 - inconsistent or invalid array descriptions are rejected at open time."""
from ..runner import Ob
from .common import *
from .. import replay as rp
from .c03 import ASSUMPTIONS as _A
from .c04 import RA

PROPERTY = 'C18'
ASSUMPTIONS = _A + ['N-memmap: NumPy rejects negative dims (ValueError) and bool dims (TypeError) for memmap '
                    'and zeros; these contracts are probed against the installed NumPy in the conformance step']
D = loader.load(env=True, stub_readme=True)
np = symnp

# corruption classes of a valid descriptor (one field at a time)
CORRUPTIONS = [
    'missing-file', 'top-list', 'top-scalar', 'top-text', 'top-torn', 'top-empty',
    'nokey-numtype', 'nokey-shape', 'nokey-arrayorder', 'nokey-darrversion', 'nokey-byteorder',
    'numtype-unknown', 'numtype-int', 'numtype-none', 'numtype-bool', 'numtype-otheritemsize',
    'byteorder-unknown', 'byteorder-int', 'arrayorder-unknown', 'arrayorder-int', 'version-bad',
    'shape-float', 'shape-str-elem', 'shape-bool', 'shape-nested', 'shape-int', 'shape-str', 'shape-dict',
    'shape-none', 'shape-neg',
]


def corrupt(w, path, kind, n, atom, x):
    """apply corruption `kind` to the descriptor at path (x: symbolic int used by some kinds)"""
    d = w.lookup(path)
    node = d.entries['arraydescription.json']
    js = node.text.obj
    if kind == 'missing-file':
        del d.entries['arraydescription.json']
    elif kind == 'top-list':
        node.text = JsonDoc([js])
    elif kind == 'top-scalar':
        node.text = JsonDoc(7)
    elif kind == 'top-text':
        node.text = 'this is not json'
    elif kind == 'top-torn':
        node.text = TORN
    elif kind == 'top-empty':
        node.text = ''
    elif kind.startswith('nokey-'):
        del js[kind[6:]]
    elif kind == 'numtype-unknown':
        js['numtype'] = 'int24'
    elif kind == 'numtype-int':
        js['numtype'] = 7
    elif kind == 'numtype-none':
        js['numtype'] = None
    elif kind == 'numtype-bool':
        js['numtype'] = 'bool'
    elif kind == 'numtype-otheritemsize':
        js['numtype'] = 'int64' if ITEMSIZE[js['numtype']] != 8 else 'int16'     # an item size that differs
    elif kind == 'byteorder-unknown':
        js['byteorder'] = 'middle'
    elif kind == 'byteorder-int':
        js['byteorder'] = 7
    elif kind == 'arrayorder-unknown':
        js['arrayorder'] = 'K'
    elif kind == 'arrayorder-int':
        js['arrayorder'] = 7
    elif kind == 'version-bad':
        js['darrversion'] = 'not a version'
    elif kind == 'shape-float':
        js['shape'] = [2.0] + list(atom)
    elif kind == 'shape-str-elem':
        js['shape'] = ['2'] + list(atom)
    elif kind == 'shape-bool':
        js['shape'] = [True] + list(atom)
    elif kind == 'shape-nested':
        js['shape'] = [[n] + list(atom)]
    elif kind == 'shape-int':
        js['shape'] = n
    elif kind == 'shape-str':
        js['shape'] = 'ab'
    elif kind == 'shape-dict':
        js['shape'] = {'a': n}
    elif kind == 'shape-none':
        js['shape'] = None
    elif kind == 'shape-neg':
        js['shape'] = [x] + list(atom)
    else:
        raise AssertionError(kind)


def must_refuse(w, path, target, probe, what):
    """opening raises; delete / truncate by path raise TypeError and change nothing"""
    before = snap(w.lookup('/w'))
    opened = []
    for nm, fn in (('Array()', lambda: D.array.Array(path)),
                   ('Array(r+)', lambda: D.array.Array(path, accessmode='r+')),
                   ('darr.open()', lambda: D.open(path))):
        if target == 'ragged' and nm != 'darr.open()':
            continue
        try:
            fn()
            opened.append(nm)
        except Exception:
            pass
    if target == 'ragged':
        for nm, fn in (('RaggedArray()', lambda: RA.RaggedArray(path)),
                       ('RaggedArray(r+)', lambda: RA.RaggedArray(path, accessmode='r+'))):
            try:
                fn()
                opened.append(nm)
            except Exception:
                pass
    if opened:
        raise Violation(f'{what}: {opened} returned an object for an invalid array directory')
    if target == 'ragged':
        ops = (('delete_raggedarray', lambda: RA.delete_raggedarray(path)),
               ('truncate_raggedarray', lambda: RA.truncate_raggedarray(path, 0)))
    else:
        ops = (('delete_array', lambda: D.array.delete_array(path)),
               ('truncate_array', lambda: D.array.truncate_array(path, 0)))
    for nm, fn in ops:
        try:
            fn()
            raise Violation(f'{what}: {nm} by path accepted an invalid array directory')
        except TypeError:
            pass
        except Violation:
            raise
        except Exception as e:
            raise Violation(f'{what}: {nm} by path raised {type(e).__name__}, not TypeError')
    if not snap_same(before, snap(w.lookup('/w')), probe):
        raise Violation(f'{what}: refusing an invalid directory changed files')
    no_open_handles(w, what)


def h_token(n: int, x: int, probe: int, kind='nokey-shape', numtype='int32', atom=(), target='array',
            sub='values', _gate=None, _small=False):
    """one descriptor field corrupted (token classes); data length consistent with the intended shape"""
    assume(0 <= n <= BIG)
    if kind == 'shape-neg':
        assume(x < 0)
    else:
        assume(x == 7)
    if kind == 'numtype-otheritemsize':
        assume(n >= 1)      # for an empty array every item size describes the (empty) file correctly
    small(_small, n, x)
    w = new_world()
    if target == 'array':
        put_array(D, w, '/w/x', n, numtype, 'little', atom)
        corrupt(w, '/w/x', kind, n, atom, x)
    else:
        put_ragged(D, w, '/w/x', [n], numtype, 'little', atom)
        corrupt(w, '/w/x/' + sub, kind, n if sub == 'values' else 1, atom if sub == 'values' else (2,), x)
    must_refuse(w, '/w/x', target, probe, f'{kind}')
    reach('end')


def h_size(n: int, delta: int, probe: int, numtype='int32', atom=(), target='array', sub='values',
           _gate=None, _small=False):
    """file length = expected + delta for any delta != 0 (also not a multiple of the item size)"""
    assume(0 <= n <= BIG and delta != 0 and -BIG <= delta <= BIG)
    small(_small, n, delta)
    w = new_world()
    rb = symnp._prod(atom) * ITEMSIZE[numtype]
    if target == 'array':
        put_array(D, w, '/w/x', n, numtype, 'little', atom)
        f = w.lookup('/w/x/arrayvalues.bin')
        size = n * rb
    else:
        put_ragged(D, w, '/w/x', [n], numtype, 'little', atom)
        f = w.lookup(f'/w/x/{sub}/arrayvalues.bin')
        size = n * rb if sub == 'values' else 16
    assume(size + delta >= 0)
    if delta > 0:
        f.bin = f.bin.concat(Seq.of(('Z',), delta))
    else:
        f.bin = f.bin.cut(0, size + delta)
    must_refuse(w, '/w/x', target, probe, 'data length off by delta')
    reach('end')


def h_shape2(a: int, b: int, length: int, probe: int, numtype='int16', _gate=None, _small=False):
    """two-axis shape [a, b] with at least one negative entry and ANY data file length"""
    assume(-BIG <= a <= BIG and -BIG <= b <= BIG and (a < 0 or b < 0) and 0 <= length <= BIG)
    small(_small, a, b, length)
    w = new_world()
    put_array(D, w, '/w/x', 0, numtype, 'little', (1,))
    node = w.lookup('/w/x/arraydescription.json')
    node.text.obj['shape'] = [a, b]
    f = w.lookup('/w/x/arrayvalues.bin')
    f.bin = Seq.of(('Z',), length)
    must_refuse(w, '/w/x', 'array', probe, 'negative extent')
    reach('end')


# ---- replay ----------------------------------------------------------------------------------------------
def replay_refuse(cex, d):
    import json
    import os
    import hashlib
    import warnings
    warnings.simplefilter('ignore')
    darr, np_ = rp.real()
    fx = dict(d.get('fixed') or {})
    fx.update(cex)
    ob = d.get('ob') or d.get('obligation')
    target = fx.get('target', 'array')
    numtype = fx.get('numtype', 'int32')
    atom = tuple(fx.get('atom', ()))
    probs = []

    def tree(p):
        out = {}
        for dp, dns, fns in os.walk(p):
            for fn in fns:
                out[os.path.relpath(os.path.join(dp, fn), p)] = hashlib.sha256(
                    open(os.path.join(dp, fn), 'rb').read()).hexdigest()
        return out
    with rp.scratch() as tmp:
        p = tmp + '/x'
        if ob == 'BAD-shape2':
            darr.create_array(p, shape=(0, 1), dtype=numtype)
            js = json.load(open(p + '/arraydescription.json'))
            js['shape'] = [int(fx['a']), int(fx['b'])]
            json.dump(js, open(p + '/arraydescription.json', 'w'))
            L = int(fx['length'])
            if L > 10 ** 7:
                return {'reproduced': False, 'skip': True, 'detail': 'too large'}
            open(p + '/arrayvalues.bin', 'wb').write(b'\0' * L)
        else:
            n = int(fx['n'])
            if n > 5000:
                return {'reproduced': False, 'skip': True, 'detail': 'too large'}
            if target == 'array':
                if n:
                    darr.asarray(p, rp.values(np_, n, atom, numtype))
                else:
                    darr.create_array(p, shape=(0,) + atom, dtype=numtype)
                dpath = p
            else:
                darr.asraggedarray(p, [rp.values(np_, n, atom, numtype)])
                dpath = p + '/' + fx.get('sub', 'values')
            jp = dpath + '/arraydescription.json'
            if ob == 'BAD-size':
                delta = int(fx['delta'])
                if abs(delta) > 10 ** 7:
                    return {'reproduced': False, 'skip': True, 'detail': 'too large'}
                fp = dpath + '/arrayvalues.bin'
                sz = os.path.getsize(fp)
                if delta > 0:
                    open(fp, 'ab').write(b'\0' * delta)
                else:
                    os.truncate(fp, sz + delta)
            else:
                kind = fx['kind']
                x = int(fx['x'])
                js = json.load(open(jp))
                nn = n if (target == 'array' or fx.get('sub') == 'values') else 1
                at = atom if (target == 'array' or fx.get('sub') == 'values') else (2,)
                txt = None
                if kind == 'missing-file':
                    os.remove(jp)
                    js = None
                elif kind == 'top-list':
                    js = [js]
                elif kind == 'top-scalar':
                    js = x
                elif kind == 'top-text':
                    txt = 'this is not json'
                elif kind == 'top-torn':
                    txt = json.dumps(js)[:17]
                elif kind == 'top-empty':
                    txt = ''
                elif kind.startswith('nokey-'):
                    del js[kind[6:]]
                else:
                    key, v = {
                        'numtype-unknown': ('numtype', 'int24'), 'numtype-int': ('numtype', x),
                        'numtype-none': ('numtype', None), 'numtype-bool': ('numtype', 'bool'),
                        'numtype-otheritemsize': ('numtype', 'int64' if ITEMSIZE[js['numtype']] != 8 else 'int16'),
                        'byteorder-unknown': ('byteorder', 'middle'), 'byteorder-int': ('byteorder', x),
                        'arrayorder-unknown': ('arrayorder', 'K'), 'arrayorder-int': ('arrayorder', x),
                        'version-bad': ('darrversion', 'not a version'),
                        'shape-float': ('shape', [2.0] + list(at)), 'shape-str-elem': ('shape', ['2'] + list(at)),
                        'shape-bool': ('shape', [True] + list(at)), 'shape-nested': ('shape', [[nn] + list(at)]),
                        'shape-int': ('shape', nn), 'shape-str': ('shape', 'ab'), 'shape-dict': ('shape', {'a': nn}),
                        'shape-none': ('shape', None), 'shape-neg': ('shape', [x] + list(at))}[kind]
                    js[key] = v
                if kind != 'missing-file':
                    with open(jp, 'w') as f:
                        f.write(txt if txt is not None else json.dumps(js))
        before = tree(p)
        openers = [('darr.open', lambda: darr.open(p))]
        if target == 'array':
            openers += [('Array', lambda: darr.Array(p)), ('Array r+', lambda: darr.Array(p, 'r+'))]
            ops = [('delete_array', lambda: darr.delete_array(p)), ('truncate_array', lambda: darr.truncate_array(p, 0))]
        else:
            openers += [('RaggedArray', lambda: darr.RaggedArray(p)), ('RaggedArray r+', lambda: darr.RaggedArray(p, 'r+'))]
            ops = [('delete_raggedarray', lambda: darr.delete_raggedarray(p)),
                   ('truncate_raggedarray', lambda: darr.truncate_raggedarray(p, 0))]
        for nm, fn in openers:
            try:
                fn()
                probs.append(f'{nm} returned an object')
            except Exception:
                pass
        for nm, fn in ops:
            try:
                fn()
                probs.append(f'{nm} by path accepted it')
            except TypeError:
                pass
            except Exception as e:
                probs.append(f'{nm} by path raised {type(e).__name__} instead of TypeError')
        if os.path.exists(p) and tree(p) != before:
            probs.append('files changed')
        elif not os.path.exists(p):
            probs.append('directory removed')
    if probs:
        return {'reproduced': True, 'detail': '; '.join(probs[:5])}
    return {'reproduced': False, 'detail': 'real darr refuses it'}


def obligations(tier):
    thorough = tier == 'thorough'
    T = 600 if thorough else 120
    obs = []
    tsplits = []
    for i, k in enumerate(CORRUPTIONS):
        for (nt, at) in ([('int32', ()), ('float64', (2,)), ('uint8', (2, 3))] if thorough
                         else [('int32', ()) if i % 2 else ('float64', (2,))]):
            tsplits.append(dict(kind=k, numtype=nt, atom=at, target='array'))
        for sub in (('values', 'indices') if thorough else (('values',) if i % 2 else ('indices',))):
            tsplits.append(dict(kind=k, numtype='int32', atom=(), target='ragged', sub=sub))
    obs.append(Ob('BAD-token', 'h_token', splits=tsplits, timeout=T, replay='replay_refuse',
                  sym='n (length, >= 0: empty arrays included), x (the int used as wrong token / negative extent), probe',
                  bounds=f'{len(CORRUPTIONS)} single-field corruption classes x {{1-D, N-D, empty}} x {{Array, ragged values, '
                         f'ragged indices}}; data length consistent with the intended shape; n, x unbounded'))
    ssplits = [dict(numtype=nt, atom=at, target='array') for (nt, at) in
               [('int32', ()), ('float64', (2,)), ('uint8', ()), ('complex128', (2, 3))]]
    ssplits += [dict(numtype='int16', atom=(), target='ragged', sub=s) for s in ('values', 'indices')]
    obs.append(Ob('BAD-size', 'h_size', splits=ssplits, timeout=T, replay='replay_refuse',
                  sym='n, delta (bytes), probe',
                  bounds='n >= 0 unbounded, delta any non-zero int >= -expected (too short or too long by ANY amount, '
                         'not a multiple of the item size included)'))
    obs.append(Ob('BAD-shape2', 'h_shape2', splits=[dict(numtype=nt) for nt in ('int16', 'uint8', 'float64')],
                  timeout=T, replay='replay_refuse', sym='a, b (extents, at least one negative), length (bytes), probe',
                  bounds='two-axis shape with a negative entry (product may be positive) and ANY data length'))
    return obs


def conformance(tier):
    from ..conformance import scenarios
    return scenarios.run(['baddescr'])
