"""C01 - Array creation round-trips values, dtype, byte order and shape."""
from ..runner import Ob
from .common import *
from .. import replay as rp
from .c03 import dt_of, check_all, ASSUMPTIONS as _A

PROPERTY = 'C01'
ASSUMPTIONS = _A + ['bit patterns of special values (NaN payloads, -0.0, subnormals) are decided only relative to '
                    "NumPy's own asarray/astype/tofile/memmap being bit-faithful (N-bits)"]
D = loader.load(env=True, stub_readme=True)
np = symnp
UNSUPPORTED = ['bool', 'str96', 'object', 'datetime64[s]', 'void64']


def expected_dtype(in_name, in_bo, dtypearg):
    """(numtype, byte-order label) NumPy gives np.asarray(x, dtype=dtypearg)"""
    if dtypearg is None:
        return in_name, label(gt_of(in_name, in_bo))
    return dtypearg, label(gt_of(dtypearg, 'little' if symnp.NATIVE == '<' else 'big'))


def h_asarray(n: int, c: int, k1: int, k2: int, k3: int, probe: int, form='ndarray',
              numtype='int32', bo='little', atom=(), dtypearg=None, layout='C', usechunklen=True,
              F=2, m=2, _gate=None, _small=False):
    """asarray(path, x, dtype, chunklen) for one input form; n rows, chunklen c (or None)"""
    assume(0 <= n <= BIG)
    small(_small, n, c, k1, k2, k3)
    if form != 'iterator':
        assume(k1 == 0 and k2 == 0 and k3 == 0)
    if usechunklen and form in ('ndarray', 'list', 'darr'):
        assume(1 <= c <= BIG and n <= F * c)
        chunklen = c
    else:
        assume(c == 0)
        chunklen = None
        if form in ('ndarray', 'darr'):
            dflt = (80 * 1024 ** 2) // (symnp._prod(atom) * ITEMSIZE[numtype])
            assume(n <= F * dflt)
        elif form == 'list':
            assume(n <= F * 1024 ** 2)
    w = new_world()
    w.mkdirs('/w')
    src = ('in', 1)
    in_dt = dt_of(numtype, bo)
    ename, elabel = expected_dtype(numtype, bo, dtypearg)
    if form == 'ndarray':
        x = np.ndarray(in_dt, (n,) + atom, Seq.of(src, n), order=layout)
        if layout in ('strided', 'F') and atom and symnp._prod(atom) > 1:
            x.flags.c_contiguous = (n <= 1)          # NumPy: a single row is contiguous either way
            x.flags.f_contiguous = (n <= 1) or layout == 'F'
        elif layout == 'strided':
            x.flags.c_contiguous = (n <= 1)
            x.flags.f_contiguous = (n <= 1)
        elif atom and symnp._prod(atom) == 1:
            x.flags.c_contiguous = x.flags.f_contiguous = True
        ref = Seq.of(src if ename == numtype else ('cast', ename, src), n)
        total = n
    elif form == 'list':
        x = np.SeqInput('int' if numtype.startswith(('int', 'uint')) else 'float', n, atom, src)
        base = 'int64' if numtype.startswith(('int', 'uint')) else 'float64'
        ename, elabel = expected_dtype(base, 'little', dtypearg)
        t = ('typed', base, src)
        ref = Seq.of(t if ename == base else ('cast', ename, t), n)
        total = n
    elif form == 'scalar':
        assume(n == 1)
        x = np.ScalarInput('float', src)
        ename, elabel = expected_dtype('float64', 'little', dtypearg)
        t = ('typed', 'float64', src)
        ref = Seq.of(t if ename == 'float64' else ('cast', ename, t), 1)
        total = 1
    elif form == 'darr':
        put_array(D, w, '/w/src', n, numtype, bo, atom, src=src)
        x = D.array.Array('/w/src')
        ref = Seq.of(src if ename == numtype else ('cast', ename, src), n)
        total = n
    elif form == 'iterator':
        ks = [k1, k2, k3][:m]
        for k in ks:
            assume(0 <= k <= BIG)
        for k in [k1, k2, k3][m:]:
            assume(k == 0)
        assume(n == 0)
        # chunks of alternating dtypes: all are cast to the FIRST chunk's dtype (or to dtype=)
        dts = [numtype, 'float64' if numtype != 'float64' else 'int32', numtype]
        obo = 'big' if bo == 'little' else 'little'
        bos = [bo, 'little', obo]       # third chunk: same numeric type, OPPOSITE byte order
        if m == 2:
            dts, bos = [numtype, numtype], [bo, obo]
        chunks = [np.ndarray(dt_of(dts[i], bos[i]), (ks[i],) + atom,
                             Seq.of(('in', i + 1), ks[i])) for i in range(m)]
        x = iter(chunks)
        ename, elabel = expected_dtype(numtype, bo, dtypearg)
        ref = Seq()
        total = 0
        for i in range(m):
            s = ('in', i + 1)
            if dtypearg is None:
                r = s if dts[i] == ename else ('cast', ename, s)
            else:
                r = s if dts[i] == ename else ('cast', ename, s)
            ref = ref.concat(Seq.of(r, ks[i]))
            total = total + ks[i]
    else:
        raise AssertionError(form)
    gate(_gate, {})
    try:
        a = D.array.asarray('/w/a', x, dtype=dtypearg, chunklen=chunklen, accessmode='r+')
    except Exception as e:
        raise Violation(f'asarray({form}) raised {type(e).__name__} for a supported input',
                        msg=holes.symstr(e))
    check_all(w, a, ename, elabel, (total,) + atom, ref, probe, f'after asarray({form})')
    try:
        js = w.lookup('/w/a/arraydescription.json').text.obj
    except Exception:
        raise Violation('descriptor unreadable')
    if js.get('darrobject') != 'Array':
        raise Violation('descriptor darrobject wrong', got=js)
    reach('end')


class FillFunc:
    """fillfunc(i): element value = f(first-axis index); result int64 rows named by the index range"""

    def __call__(self, i):
        rows = i._rows()
        out = []
        for s in rows.segs:
            if s.src[0] != 'arange':
                raise ModelGap('fillfunc applied to a non-index array')
            out.append(Seg(('ff',), s.lo, s.hi))
        return np.ndarray(np.SymDType('int64'), i.shape, Seq(out))


def h_create(n: int, probe: int, c=2, numtype='float64', atom=(), usefunc=False, usechunklen=True,
             F=3, fillv=7, _gate=None, _small=False):
    """create_array(shape=(n,)+atom, dtype, fill | fillfunc, chunklen c)"""
    assume(0 <= n <= BIG)
    if usechunklen:
        assume(n <= F * c)
    else:
        assume(n <= F * max((80 * 1024 ** 2) // (symnp._prod(atom) * ITEMSIZE[numtype]), 1))
    small(_small, n)
    w = new_world()
    w.mkdirs('/w')
    try:
        if usefunc:
            a = D.array.create_array('/w/a', shape=(n,) + atom, dtype=numtype, fillfunc=FillFunc(),
                                     chunklen=c if usechunklen else None)
        else:
            a = D.array.create_array('/w/a', shape=(n,) + atom if atom else n, dtype=numtype, fill=fillv,
                                     chunklen=c if usechunklen else None)
    except Exception as e:
        raise Violation(f'create_array raised {type(e).__name__}', msg=holes.symstr(e))
    if usefunc:
        ref = Seq.of(('ff',) if numtype == 'int64' else ('cast', numtype, ('ff',)), n)
    else:
        ref = Seq.of(symnp.fill_src(0 if fillv is None else fillv, numtype), n)
    lab = label(gt_of(numtype, 'little' if symnp.NATIVE == '<' else 'big'))
    check_all(w, a, numtype, lab, (n,) + atom, ref, probe, 'after create_array')
    reach('end')


def h_reject(n: int, probe: int, form='ndarray', badtype='bool', _gate=None, _small=False):
    """element types outside the 13 supported ones: TypeError before anything is created"""
    assume(1 <= n <= BIG)
    w = new_world()
    w.mkdirs('/w')
    before = snap(w.lookup('/w'))
    if form == 'ndarray':
        x = np.ndarray(np.SymDType(badtype), (n,), Seq.of(('in', 1), n))
    elif form == 'list':
        x = np.SeqInput({'bool': 'bool', 'str96': 'str', 'object': 'object'}[badtype], n, (), ('in', 1))
    elif form == 'iterator':
        x = iter([np.ndarray(np.SymDType(badtype), (n,), Seq.of(('in', 1), n))])
    elif form == 'scalar':
        x = True if badtype == 'bool' else 'text'
    try:
        D.array.asarray('/w/a', x)
        raise Violation(f'asarray accepted an input of element type {badtype}')
    except TypeError:
        pass
    except Violation:
        raise
    except Exception as e:
        raise Violation(f'unsupported element type raised {type(e).__name__}, not TypeError')
    if not snap_same(before, snap(w.lookup('/w')), probe):
        raise Violation('a rejected input left something on disk')
    reach('end')


def h_table(**kw):
    """the 13 x 2 dtype <-> (numtype, byteorder) mapping with the REAL NumPy and the unrewritten
    numtype module: finite table, enumerated completely (concrete)."""
    import numpy as rnp
    R = loader.load(env=False)
    bad = []
    cnt = 0
    for nt in NUMTYPES:
        for bo in ('<', '>'):
            dt = rnp.dtype(nt).newbyteorder(bo)
            a = rnp.zeros((2, 3), dtype=dt)
            info = R.numtype.arraynumtypeinfo(a)
            back = rnp.dtype(R.numtype.arrayinfotodtype(info))
            truth = 'little' if (dt.itemsize == 1 and rnp.little_endian) or dt.str[0] == '<' or (
                dt.str[0] == '|' and rnp.little_endian) else 'big'
            one = rnp.ones(1, dtype=dt)
            raw = one.tobytes()
            le = rnp.ones(1, dtype=rnp.dtype(nt).newbyteorder('<')).tobytes()
            truth_bytes = 'little' if raw == le else 'big'
            cnt += 1
            if info['numtype'] != nt:
                bad.append(f'{dt.str}: numtype {info["numtype"]}')
            if dt.itemsize > 1 and info['byteorder'] != truth_bytes:
                bad.append(f'{dt.str}: label {info["byteorder"]} but bytes are {truth_bytes}')
            if back.name != nt or (dt.itemsize > 1 and rnp.ones(1, dtype=back).tobytes() != raw):
                bad.append(f'{dt.str}: arrayinfotodtype gives {back.str}')
            if info['shape'] != (2, 3) or info['arrayorder'] != 'C':
                bad.append(f'{dt.str}: shape/arrayorder {info["shape"]} {info["arrayorder"]}')
    if bad:
        return dict(status='violated', what='dtype table: ' + '; '.join(bad[:3]), cex={'table': bad[:5]},
                    paths=cnt, paths_ok=cnt, solver={}, reached=['end'], notes=[])
    return dict(status='holds', paths=cnt, paths_ok=cnt, solver={}, reached=['end'], notes=[],
                lemmas=[{'name': 'dtype table 13x2 (real NumPy, exhaustive, concrete)', 'cases': cnt}])


# ---- replay ------------------------------------------------------------------------------------------------
def replay_create(cex, d):
    import json
    import os
    import warnings
    warnings.simplefilter('ignore')
    darr, np_ = rp.real()
    fx = dict(d.get('fixed') or {})
    fx.update(cex)
    ob = d.get('ob') or d.get('obligation')
    if ob == 'O9-table':
        return {'reproduced': True, 'detail': str(cex)}
    n = int(fx.get('n', 0))
    if n > 5000:
        return {'reproduced': False, 'skip': True, 'detail': 'too large'}
    atom = tuple(fx.get('atom', ()))
    probs = []
    with rp.scratch() as tmp:
        p = tmp + '/a'
        try:
            if ob.startswith('O8'):
                bt = {'bool': 'bool', 'str96': 'U3', 'object': 'O', 'datetime64[s]': 'M8[s]', 'void64': 'V8'}[fx['badtype']]
                if fx['form'] == 'ndarray':
                    x = np_.zeros(n, dtype=bt)
                elif fx['form'] == 'list':
                    x = np_.zeros(n, dtype=bt).tolist()
                elif fx['form'] == 'iterator':
                    x = iter([np_.zeros(n, dtype=bt)])
                else:
                    x = True if fx['badtype'] == 'bool' else 'text'
                try:
                    darr.asarray(p, x)
                    probs.append('accepted')
                except TypeError:
                    pass
                except Exception as e:
                    probs.append(f'raised {type(e).__name__}: {e}')
                if os.path.exists(p):
                    probs.append('something was created on disk')
            elif ob.startswith('O6') or ob.startswith('O7'):
                nt = fx['numtype']
                c = int(fx['c']) if fx['usechunklen'] else None
                if fx['usefunc']:
                    a = darr.create_array(p, shape=(n,) + atom, dtype=nt, fillfunc=lambda i: i * 2, chunklen=c)
                    grid = np_.arange(n).reshape((n,) + (1,) * len(atom)) * np_.ones((1,) + atom, dtype='int64')
                    ref = (grid * 2).astype(nt)
                else:
                    fv = fx.get('fillv', 7)
                    a = darr.create_array(p, shape=(n,) + atom if atom else n, dtype=nt, fill=fv, chunklen=c)
                    ref = np_.full((n,) + atom, 0 if fv is None else fv, dtype=nt)
                _cmp(darr, np_, p, a, ref, probs)
            else:
                form = fx['form']
                nt, bo = fx['numtype'], fx['bo']
                da = fx.get('dtypearg')
                c = int(fx['c']) if fx.get('usechunklen') and form in ('ndarray', 'list', 'darr') else None
                if form == 'ndarray':
                    x = rp.values(np_, n, atom, nt, bo)
                    if fx.get('layout') == 'F' and x.ndim > 1:
                        x = np_.asfortranarray(x)
                    elif fx.get('layout') == 'strided':
                        big = rp.values(np_, 2 * n, atom, nt, bo)
                        x = big[::2]
                    ref = np_.asarray(x, dtype=da)
                elif form == 'list':
                    base = 'int64' if nt.startswith(('int', 'uint')) else 'float64'
                    x = rp.values(np_, n, atom, base).tolist()
                    ref = np_.asarray(x, dtype=da) if n or da else np_.asarray(x)
                elif form == 'scalar':
                    x = 2.5
                    ref = np_.array(x, dtype=da, ndmin=1)
                elif form == 'darr':
                    src = rp.values(np_, n, atom, nt, bo)
                    x = darr.asarray(tmp + '/src', src) if n else darr.create_array(tmp + '/src', shape=(0,) + atom, dtype=src.dtype)
                    ref = np_.asarray(src, dtype=da)
                else:
                    m = int(fx['m'])
                    ks = [int(fx[f'k{i + 1}']) for i in range(m)]
                    dts = [nt, 'float64' if nt != 'float64' else 'int32', nt]
                    obo = 'big' if bo == 'little' else 'little'
                    bos = [bo, 'little', obo]
                    if m == 2:
                        dts, bos = [nt, nt], [bo, obo]
                    chunks = [rp.values(np_, ks[i], atom, dts[i], bos[i], 100 * (i + 1)) for i in range(m)]
                    x = iter(chunks)
                    first = np_.asarray(chunks[0], dtype=da)
                    ref = np_.concatenate([np_.asarray(ch, dtype=da).astype(first.dtype) for ch in chunks], axis=0)
                try:
                    a = darr.asarray(p, x, dtype=da, chunklen=c, accessmode='r+')
                except Exception as e:
                    return {'reproduced': True, 'detail': f'asarray({form}, n={n}, dtype={da}, chunklen={c}) raised {type(e).__name__}: {e}'}
                _cmp(darr, np_, p, a, ref, probs)
        except Exception:
            import traceback
            return {'reproduced': False, 'detail': 'replay error ' + traceback.format_exc()[-700:]}
    if probs:
        return {'reproduced': True, 'detail': '; '.join(probs[:4])}
    return {'reproduced': False, 'detail': 'real darr equals the NumPy reference'}


def _cmp(darr, np_, p, a, ref, probs):
    import json
    for nm, h in (('returned', a), ('fresh', darr.Array(p))):
        got = h[:]
        if got.dtype != ref.dtype:
            probs.append(f'{nm} dtype {got.dtype.str} != reference {ref.dtype.str}')
        elif got.shape != ref.shape or got.tobytes() != np_.ascontiguousarray(ref).tobytes():
            probs.append(f'{nm} shape/values differ (shape {got.shape} vs {ref.shape})')
        if h.shape != ref.shape or h.dtype != ref.dtype:
            probs.append(f'{nm} handle shape/dtype {h.shape} {h.dtype} vs {ref.shape} {ref.dtype}')
    js = json.load(open(p + '/arraydescription.json'))
    missing = [k for k in ('numtype', 'byteorder', 'shape', 'arrayorder', 'darrversion', 'darrobject') if k not in js]
    if missing:
        probs.append(f'arraydescription.json lacks {missing}')
        return
    dt = np_.dtype(js['numtype']).newbyteorder('<' if js['byteorder'] == 'little' else '>')
    raw = np_.fromfile(p + '/arrayvalues.bin', dtype=dt)
    if js['arrayorder'] not in ('C', 'F') or raw.size != ref.size or \
            np_.ascontiguousarray(raw.reshape(js['shape'], order=js['arrayorder'])).astype(
                ref.dtype.newbyteorder('=')).tobytes() != \
            np_.ascontiguousarray(ref).astype(ref.dtype.newbyteorder('=')).tobytes():
        probs.append('independent decoding of the files differs from the reference')
    if dt.itemsize > 1 and dt.str != ref.dtype.str and ref.dtype.str[0] != '|':
        probs.append(f'descriptor says {dt.str}, reference is {ref.dtype.str}')


def obligations(tier):
    thorough = tier == 'thorough'
    T = 900 if thorough else 200
    F = 3 if thorough else 2
    obs = []
    if thorough:
        cfgs = [(nt, bo, at) for nt in NUMTYPES for bo in ('little', 'big') for at in [(), (2,), (2, 3)]]
        cfgs = [c for i, c in enumerate(cfgs) if i % 2 == 0]
    else:
        cfgs = [('int32', 'little', ()), ('float64', 'big', (2,)), ('uint8', 'little', (1,)),
                ('complex64', 'big', (2, 3)), ('float16', 'big', ())]
    O1 = []
    for i, (nt, bo, at) in enumerate(cfgs):
        for da in ((None, 'float32', 'int16', nt) if thorough else (None, ('float32' if i % 2 else nt))):
            for lay in (('C', 'F', 'strided') if ((thorough or i in (1, 3)) and at) else ('C',) if i % 2 else (('F', 'strided') if len(at) > 0 else ('strided',))):
                for ucl in (True, False):
                    O1.append(dict(form='ndarray', numtype=nt, bo=bo, atom=at, dtypearg=da, layout=lay,
                                   usechunklen=ucl, F=F))
    obs.append(Ob('O1-ndarray', 'h_asarray', splits=O1, timeout=T, regions=('empty_input_no_dtype',),
                  replay='replay_create', sym='n, c (chunklen), probe',
                  bounds=f'n >= 0 unbounded (length-0 first axis is a value), chunklen None or any c >= 1 with n <= {F}*c '
                         f'(at most {F} chunks + remainder); layouts C / F / strided; dtype argument None / same / other'))
    O2 = [dict(form='list', numtype=nt, bo='little', atom=at, dtypearg=da, usechunklen=ucl, F=F)
          for (nt, at) in [('int32', ()), ('float64', (2,))] for da in (None, 'float32') for ucl in (True, False)]
    obs.append(Ob('O2-sequence', 'h_asarray', splits=O2, timeout=T, replay='replay_create', sym='n, c, probe',
                  bounds='nested sequence of one numeric kind (int / float), n >= 0 unbounded'))
    obs.append(Ob('O3-scalar', 'h_asarray',
                  splits=[dict(form='scalar', numtype='float64', dtypearg=da, usechunklen=False) for da in (None, 'int16')],
                  timeout=T, replay='replay_create', sym='n (=1), probe', bounds='a Python number'))
    O4 = [dict(form='iterator', numtype=nt, bo=bo, atom=at, dtypearg=da, usechunklen=False, m=m)
          for (nt, bo, at) in cfgs[:3] for da in (None, 'float32') for m in ((1, 2, 3) if thorough else (2, 3))]
    obs.append(Ob('O4-iterator', 'h_asarray', splits=O4, timeout=T, replay='replay_create',
                  sym='k1..km, probe', bounds='iterator of m <= 3 chunks of unbounded lengths (zero-length chunks included) '
                                             'and alternating dtypes / byte orders'))
    O5 = [dict(form='darr', numtype=nt, bo=bo, atom=at, dtypearg=da, usechunklen=ucl, F=F)
          for (nt, bo, at) in cfgs[:2] for da in (None, 'float32') for ucl in (True, False)]
    obs.append(Ob('O5-darr', 'h_asarray', splits=O5, timeout=T, replay='replay_create', sym='n, c, probe',
                  bounds='another Darr Array as input, n >= 0 unbounded'))
    obs.append(Ob('O6-fill', 'h_create',
                  splits=[dict(c=c, numtype=nt, atom=at, usefunc=False, usechunklen=ucl, F=3)
                          for (nt, at) in [('float64', ()), ('int16', (2,)), ('complex128', (2, 3))]
                          for (c, ucl) in [(1, True), (2, True), (3, True), (5, False)]] +
                         [dict(c=2, numtype=nt, atom=at, usefunc=False, usechunklen=True, F=3, fillv=fv)
                          for (nt, at, fv) in [('float64', (), -0.0), ('float32', (2,), 0.0), ('int16', (), 0), ('int8', (), None),
                                               ('float16', (), False), ('uint8', (2,), True), ('complex64', (), -0.0),
                                               ('float64', (), 0.5), ('int32', (), -1)]],
                  timeout=T, replay='replay_create', sym='n, probe',
                  bounds='n >= 0 with n <= 3*chunklen, chunklen in {1,2,3,None}; fill values 7, -0.0, 0.0, 0, None (default), '
                         'False, True, 0.5, -1 compared by the bytes they cast to'))
    obs.append(Ob('O7-fillfunc', 'h_create',
                  splits=[dict(c=c, numtype=nt, atom=at, usefunc=True, usechunklen=ucl, F=3)
                          for (nt, at) in [('float64', ()), ('int64', (2,)), ('float32', (2, 3))]
                          for (c, ucl) in [(1, True), (2, True), (3, True), (5, False)]],
                  timeout=T, replay='replay_create', sym='n, probe',
                  bounds='fill function of the first-axis index grid; buffer reuse, i += chunklen, remainder chunk'))
    obs.append(Ob('O8-reject', 'h_reject',
                  splits=[dict(form=f, badtype=b) for f in ('ndarray', 'iterator') for b in UNSUPPORTED]
                  + [dict(form='list', badtype=b) for b in ('bool', 'str96', 'object')]
                  + [dict(form='scalar', badtype=b) for b in ('bool', 'str96')],
                  timeout=T, replay='replay_create', sym='n, probe',
                  bounds='bool, str, object, datetime64, structured element types in each input form'))
    obs.append(Ob('O9-table', 'h_table', splits=[{}], timeout=60, replay='replay_create', kind='concrete',
                  sym='(finite table)', bounds='13 types x 2 byte orders, exhaustive, real NumPy'))
    return obs


def conformance(tier):
    from ..conformance import scenarios
    return scenarios.run(['array_basic', 'creation'])
