"""C06 - generated read code for Arrays denotes the stored array in every language."""
import os
import re

from ..runner import Ob
from .common import *
from .. import replay as rp
from .c03 import ASSUMPTIONS as _A
from ..lang import arraycode
from ..lang.syntax import IllFormed

PROPERTY = 'C06'
ASSUMPTIONS = _A + ['the per-language interpreters in vf/lang/arraycode.py encode the documented binary-read / reshape '
                    'semantics of R, Matlab/Octave, Scilab, Julia, IDL, Mathematica and Maple (each rule quoted with its '
                    'reference); they are the trusted base for the languages that cannot be executed here',
                    'the Python-family interpreters (numpy, numpymemmap, python, darr) are validated by EXECUTING the '
                    'generated snippets with the real NumPy in the conformance step',
                    'fromfile / BinaryReadList / FileTools[Binary][Read] read the whole file: count = file length / item '
                    'size = prod(shape) by the size equation of C02']
D = loader.load(env=True, stub_readme=False, pkg='darrsym_readme')
np = symnp
LANGS = ['darr', 'idl', 'julia_ver0', 'julia_ver1', 'mathematica', 'matlab', 'maple', 'numpy', 'numpymemmap',
         'python', 'R', 'scilab']
COLUMN = {'idl': 'IDL', 'julia_ver0': 'Julia', 'julia_ver1': 'Julia', 'maple': 'Maple', 'mathematica': 'Mathematica',
          'matlab': 'Matlab', 'numpy': 'Numpy', 'numpymemmap': 'Numpy', 'python': 'Python', 'R': 'R',
          'scilab': 'Scilab'}


def compat_tables():
    """parse the two compatibility tables of docs/readcode.rst (regenerated on every run)"""
    txt = open(os.path.join(loader.REPO, 'docs', 'readcode.rst'), encoding='utf-8').read()
    rows = [l for l in txt.splitlines() if l.startswith('|')]
    tables = []
    cur = None
    for l in rows:
        cells = [c.strip() for c in l.strip('|').split('|')]
        if cells[0] == '' and 'IDL' in cells:
            cur = {'header': cells[1:], 'rows': {}}
            tables.append(cur)
        elif cur is not None:
            cur['rows'][cells[0]] = cells[1:]
    types, nd = tables[0], tables[1]
    offered = {}
    for nt, cells in types['rows'].items():
        offered[nt] = {h: (c != '') for h, c in zip(types['header'], cells)}
    ndok = {h: (c != '') for h, c in zip(nd['header'], nd['rows']['N-D array'])}
    return offered, ndok


OFFERED, NDOK = compat_tables()


def table_says(lang, numtype, rank):
    if lang == 'darr':
        return True
    col = COLUMN[lang]
    return OFFERED[numtype][col] and (rank == 1 or NDOK[col])


def mk_handle(w, path, extents, numtype, bolabel, stale=None):
    d = w.mkdirs(path if path.startswith('/') else '/w/' + path)
    f = File()
    f.bin = Seq()
    f.text = None
    d.entries['arrayvalues.bin'] = f
    j = File()
    j.text = JsonDoc(array_descr(D, numtype, bolabel, extents))
    j.bin = None
    d.entries['arraydescription.json'] = j
    a = object.__new__(D.array.Array)
    a._datadir = D.datadir.DataDir(path=path, protectedpaths=a._protectedfiles)
    a._path = a._datadir._path
    a._datapath = a._path / a._datafilename
    a._arraydescrpath = a._path / a._arraydescrfilename
    a._accessmode = 'r'
    a._memmap = None
    a._valuesfd = None
    a._memmapusers = 0
    # everything Array.__init__ caches (a changed /repo may use the cached copies). `stale` makes the cached
    # first-axis length differ from what is on disk (another handle appended since this one was opened):
    # the generated code must describe the stored array, not the handle's memory of it.
    cached = list(extents)
    if stale is not None:
        cached[0] = stale
    a._shape = tuple(cached)
    a._dtype = np.SymDType(numtype, gt_of(numtype, bolabel))
    a._size = symnp._prod(cached)
    a._metadata = D.metadata.MetaData(a._path / a._metadatafilename, accessmode='r',
                                      callatfilecreationordeletion=a._update_readmetxt)

    def donor():
        put_array(D, w, '/w/donor/arr', 2, numtype, bolabel, tuple(2 for _ in extents[1:]))
        return D.array.Array('/w/donor/arr')
    return complete_stub(a, donor)


def product(xs):
    p = 1
    for x in xs:
        p = p * x
    return p


def check_denotation(den, lang, numtype, bolabel, extents, expected_path):
    rank = len(extents)
    total = product(extents)
    if den.get('placeholder'):
        return
    if den['path'] != expected_path:
        raise Violation(f'{lang}: code refers to {den["path"]!r}, requested path is {expected_path!r}')
    if den['numtype'] != numtype:
        raise Violation(f'{lang}: code reads {den["numtype"]}, data are {numtype}')
    if ITEMSIZE[numtype] > 1 and den['byteorder'] != bolabel:
        raise Violation(f'{lang}: code reads {den["byteorder"]}-endian, data are {bolabel}-endian')
    if not den['readonly']:
        raise Violation(f'{lang}: running the code may change the data file (file opened / mapped writable)')
    cnt = den['count']
    if cnt != 'file':
        want = total
        if lang == 'python' and numtype.startswith('complex'):
            want = 2 * total
        if den.get('count_is_double'):
            want = 2 * total
        if cnt != want:
            raise Violation(f'{lang}: number of items read differs from the number of stored items')
        if den.get('count2', cnt) != cnt:
            raise Violation(f'{lang}: real and imaginary parts read different item counts')
    for dims in (den.get('dims'), den.get('dims2')) if 'dims2' in den else (den.get('dims'),):
        if dims is None:
            if rank != 1 and not (lang == 'python'):
                raise Violation(f'{lang}: a {rank}-dimensional array is read without dimensions')
            continue
        want = list(extents) if den['order'] == 'row' else list(extents)[::-1]
        if len(dims) != len(want):
            raise Violation(f'{lang}: code gives {len(dims)} dimensions, array has {rank}')
        for x, y in zip(dims, want):
            if x != y:
                raise Violation(f'{lang}: dimensions are not {"as stored" if den["order"] == "row" else "reversed"}',
                                order=den['order'])


def h_readcode(n0: int, n1: int, n2: int, n3: int, st: int, numtype='int32', bo='little', rank=2,
               langs=tuple(LANGS), relhandle=False, _gate=None, _small=False):
    ext = [n0, n1, n2, n3]
    for x in ext[:rank]:
        assume(1 <= x <= 2 ** 40)
    for x in ext[rank:]:
        assume(x == 1)
    small(_small, *ext[:rank])
    extents = ext[:rank]
    w = new_world()
    hpath = 'dat/arr' if relhandle else '/w/dat/arr'
    assume(1 <= st <= 2 ** 40)
    a = mk_handle(w, hpath, extents, numtype, bo, stale=st)     # cached length st, stored length n0
    offered_now = []
    flags = {'matlab_complex_nd_quoting': False, 'python_ignores_path': False, 'numpymemmap_default_mode': False}
    for lang in langs:
        says = table_says(lang, numtype, rank)
        for mode, kw, exp in (('relative', {}, 'arrayvalues.bin'),
                              ('base', {'basepath': 'some/base'}, 'some/base/arrayvalues.bin'),
                              ('abs', {'abspath': True}, '/w/dat/arr/arrayvalues.bin')):
            code = a.readcode(lang, **kw)
            if code is None:
                if says:
                    raise Violation(f'{lang}: code withheld for {numtype} rank {rank} although the documented '
                                    f'compatibility table offers it')
                continue
            if not says:
                raise Violation(f'{lang}: code offered for {numtype} rank {rank} although the documented '
                                f'compatibility table leaves the cell empty')
            try:
                den = arraycode.INTERPRETERS[lang](code)
            except IllFormed as e:
                raise Violation(f'{lang} ({mode} path): generated code is not well-formed: {e}', code=code)
            check_denotation(den, lang, numtype, bo, extents, exp)
        if a.readcode(lang) is not None:
            offered_now.append(lang)
    if set(langs) == set(LANGS):
        if tuple(sorted(offered_now)) != tuple(a.readcodelanguages):
            raise Violation('readcodelanguages differs from the set of languages for which code is offered',
                            got=list(a.readcodelanguages), want=sorted(offered_now))
    if set(langs) == set(LANGS):
        # a second array of the SAME numeric type and another dimensionality in the same process:
        # what is offered depends on the dimensionality too
        rank2 = 1 if rank > 1 else 2
        b = mk_handle(w, '/w/dat/other', [n0, n1][:rank2], numtype, bo)
        want2 = tuple(sorted(l for l in LANGS if table_says(l, numtype, rank2)))
        if tuple(b.readcodelanguages) != want2:
            raise Violation('readcodelanguages of a second array (same type, other dimensionality) is not the set '
                            'the compatibility table offers', got=list(b.readcodelanguages), want=list(want2))
        for l in LANGS:
            if (b.readcode(l) is not None) != (l in want2):
                raise Violation(f'{l}: offered/withheld wrongly for the second array')
    try:
        a.readcode('perl')
        raise Violation('unsupported language accepted')
    except ValueError:
        pass
    reach('end')


def h_offsets(**kw):
    """E2-style lemma (z3 + cvc5): for ranks 2..4 the column-major offset of the reversed index in the
    reversed dimensions equals the row-major (C order) offset - the identity the interpreters rely on."""
    from ..smt import py2smt
    lemmas = []
    for r in (2, 3, 4):
        n = [f'n{i}' for i in range(r)]
        ix = [f'i{i}' for i in range(r)]
        # C order offset: ((i0*n1 + i1)*n2 + i2)...
        c = ix[0]
        for k in range(1, r):
            c = f'(+ (* {c} {n[k]}) {ix[k]})'
        # column-major with dims reversed d_k = n_{r-1-k}, index j_k = i_{r-1-k}: sum j_k * prod_{m<k} d_m
        terms = []
        for k in range(r):
            t = ix[r - 1 - k]
            for m in range(k):
                t = f'(* {t} {n[r - 1 - m]})'
            terms.append(t)
        f = '(+ ' + ' '.join(terms) + ')'
        smt = '(set-logic ALL)\n' + ''.join(f'(declare-const {v} Int)\n' for v in n + ix)
        smt += ''.join(f'(assert (and (>= {a} 1) (>= {b} 0) (< {b} {a})))\n' for a, b in zip(n, ix))
        smt += f'(assert (not (= {c} {f})))\n(check-sat)\n'
        lemmas.append({'name': f'rank {r}: column-major offset of reversed index in reversed dims == C-order offset',
                       'solvers': py2smt.run_solvers(smt)})
    vs = [s['verdict'] for l in lemmas for s in l['solvers']]
    st = 'holds' if all(v == 'unsat' for v in vs) else ('violated' if 'sat' in vs else 'unknown')
    return dict(status=st, paths=len(lemmas), paths_ok=len(lemmas), reached=['end'], notes=[], lemmas=lemmas,
                solver={'queries': len(vs)}, reason=str(vs) if st != 'holds' else '',
                what='offset identity refuted', cex={'verdicts': vs})


# ---- replay / conformance: execute the Python-family snippets for real ---------------------------------------
def _execute_python_family(darr, np_, tmp, numtype, bo, shape, lang, mode):
    import hashlib
    ref = rp.values(np_, shape[0], tuple(shape[1:]), numtype, bo, 3)
    p = os.path.join(tmp, 'arr')
    if os.path.exists(p):
        import shutil
        shutil.rmtree(p)
    a = darr.asarray(p, ref) if shape[0] else darr.create_array(p, shape=tuple(shape), dtype=ref.dtype)
    kw = {'relative': {}, 'base': {'basepath': p}, 'abs': {'abspath': True}}[mode]
    code = a.readcode(lang, **kw)
    if code is None:
        return None, None
    files = {f: hashlib.sha256(open(os.path.join(p, f), 'rb').read()).hexdigest() for f in os.listdir(p)}
    cwd = os.getcwd()
    ns = {}
    problems = []
    try:
        os.chdir(p if mode == 'relative' else tmp)
        if lang == 'darr':
            code = code.replace("'path_to_data_dir'", repr(p))
        try:
            exec(code, ns)
        except Exception as e:
            if shape[0] != 0:      # for arrays without elements only "changes no file" is claimed
                problems.append(f'executing the {lang} snippet ({mode}) raised {type(e).__name__}: {e}')
            else:
                problems.append(None)
    finally:
        os.chdir(cwd)
    if problems == [None]:
        problems = []
    elif not problems:
        got = ns['a']
        if lang == 'python':
            import array as _array
            if numtype.startswith('complex'):
                got = np_.array(ns['real']) + 1j * np_.array(ns['imag'])
            else:
                got = np_.array(got)
            if not np_.array_equal(got.astype(ref.dtype.newbyteorder('=')), ref.astype(ref.dtype.newbyteorder('='))):
                problems.append(f'python snippet ({mode}) yields other values')
        else:
            got = np_.asarray(got[:] if lang == 'darr' else got)
            if got.shape != ref.shape or got.dtype.newbyteorder('=') != ref.dtype.newbyteorder('=') or \
                    got.tobytes() != ref.tobytes():
                problems.append(f'{lang} snippet ({mode}) yields other values/shape/dtype '
                                f'({got.shape} {got.dtype} vs {ref.shape} {ref.dtype})')
        del got
        ns.clear()
    import gc
    gc.collect()
    files2 = {f: hashlib.sha256(open(os.path.join(p, f), 'rb').read()).hexdigest() for f in os.listdir(p)}
    if files2 != files:
        problems.append(f'running the {lang} snippet ({mode}) on shape {tuple(shape)} CHANGED files of the array: '
                        f'{sorted(k for k in files2 if files.get(k) != files2[k])}')
    try:
        darr.Array(p)
    except Exception as e:
        problems.append(f'after running the {lang} snippet the array no longer opens: {e}')
    return code, problems


def h_run_readonly(n: int, probe: int, numtype='int32', bo='little', atom=(), version='same', withmeta=False,
                   _gate=None, _small=False):
    """what the generated 'Python with Darr' program DOES - darr.Array(path) with the default access mode, then
    a[:] - changes no file of the array (arrays without elements included), whichever Darr version wrote its
    description"""
    assume(0 <= n <= 2 ** 30)
    small(_small, n)
    w = new_world()
    put_array(D, w, '/w/dat/arr', n, numtype, bo, tuple(atom), metadata={'who': 'me'} if withmeta else None)
    if version != 'same':
        node = w.lookup('/w/dat/arr/arraydescription.json')
        obj = dict(node.text.obj)
        obj['darrversion'] = version
        node.text = JsonDoc(obj)
    before = snap(w.lookup('/w/dat/arr'))
    try:
        a = D.array.Array(path='/w/dat/arr')
        v = a[:]
        a.readcode('darr')
        a.readcodelanguages
    except Exception as e:
        raise Violation(f'reading a well-formed array written by Darr {version} raised {type(e).__name__}',
                        msg=holes.symstr(e))
    if not snap_same(before, snap(w.lookup('/w/dat/arr')), probe):
        raise Violation(f'executing what the Darr read code does (open with the default mode, read) CHANGED a file of '
                        f'the array (description written by Darr version {version})')
    no_open_handles(w, 'after running the read code')
    reach('end')


def replay_run_readonly(cex, d):
    import warnings
    import json as js
    import hashlib
    warnings.simplefilter('ignore')
    darr, np_ = rp.real()
    fx = dict(d.get('fixed') or {})
    fx.update(cex)
    n = min(int(fx['n']), 5)
    atom = tuple(fx['atom'])

    def tree(p):
        return {f: hashlib.sha256(open(os.path.join(p, f), 'rb').read()).hexdigest() for f in sorted(os.listdir(p))}
    with rp.scratch() as tmp:
        p = tmp + '/arr'
        ref = rp.values(np_, n, atom, fx['numtype'], fx['bo'], 1)
        md = {'who': 'me'} if fx.get('withmeta') else None
        a = darr.asarray(p, ref, metadata=md) if n else darr.create_array(p, shape=(0,) + atom, dtype=ref.dtype, metadata=md)
        code = a.readcode('darr', abspath=True)
        del a
        if fx['version'] != 'same':
            q = p + '/arraydescription.json'
            obj = js.load(open(q))
            obj['darrversion'] = fx['version']
            js.dump(obj, open(q, 'w'))
        before = tree(p)
        try:
            ns = {}
            if code is not None:
                exec(code, ns)
                ns['a'][:]
            else:
                darr.Array(path=p)[:]
            ns.clear()
        except Exception as e:
            return {'reproduced': True, 'detail': f'running the Darr read code raised {e!r}'}
        after = tree(p)
        if after != before:
            ch = sorted(x for x in set(before) | set(after) if before.get(x) != after.get(x))
            return {'reproduced': True, 'detail': f'running the generated Darr code changed {ch}'}
    return {'reproduced': False, 'detail': 'running the Darr read code leaves every file byte-identical'}


def replay_readcode(cex, d):
    import warnings
    warnings.simplefilter('ignore')
    darr, np_ = rp.real()
    fx = dict(d.get('fixed') or {})
    fx.update(cex)
    if (d.get('ob') or d.get('obligation')) == 'OFFSET':
        return {'reproduced': True, 'detail': str(cex)}
    rank = int(fx['rank'])
    ext = [int(fx[f'n{i}']) for i in range(rank)]
    what = d.get('what') or ''
    lang = what.split(':')[0].split(' ')[0]
    numtype, bo = fx['numtype'], fx['bo']
    # the Python family is executed for real; for the other languages the replay is the
    # interpreter's concrete evaluation of the REAL readcode() output plus the rule it rests on
    from ..lang.syntax import IllFormed as IF
    with rp.scratch() as tmp:
        # the solver's extents themselves when they are small (an extent of exactly 1 or 0 may be what matters);
        # large ones are replaced by distinct small ones
        small_ext = [x if x <= 6 else min(x, 4) + i + 3 for i, x in enumerate(ext)]
        n0 = small_ext[0]
        ref0 = rp.values(np_, max(n0, 1), tuple(small_ext[1:]), numtype, bo)
        # the handle `a` is opened BEFORE another handle changes the length: its cached shape is stale, the
        # generated code must describe what is stored
        if n0 >= 1:
            if n0 - 1 > 0:
                a = darr.asarray(tmp + '/arr', ref0[:n0 - 1])
            else:
                a = darr.create_array(tmp + '/arr', shape=(0,) + tuple(small_ext[1:]), dtype=ref0.dtype)
            darr.Array(tmp + '/arr', accessmode='r+').append(ref0[n0 - 1:])
        else:
            a = darr.asarray(tmp + '/arr', ref0)
            darr.truncate_array(tmp + '/arr', 0)
        ref = ref0
        probs = []
        if lang in ('numpy', 'numpymemmap', 'python', 'darr'):
            for mode in ('relative', 'base', 'abs'):
                for shape in (small_ext, [0] + small_ext[1:]):
                    code, pr = _execute_python_family(darr, np_, tmp, numtype, bo, shape, lang, mode)
                    if pr:
                        probs += pr
            if probs:
                return {'reproduced': True, 'detail': '; '.join(probs[:3])}
        for mode, kw, exp in (('relative', {}, 'arrayvalues.bin'), ('base', {'basepath': 'some/base'}, 'some/base/arrayvalues.bin'),
                              ('abs', {'abspath': True}, os.path.realpath(tmp + '/arr/arrayvalues.bin'))):
            code = a.readcode(lang, **kw) if lang in LANGS else None
            says = table_says(lang, numtype, rank) if lang in LANGS else None
            if code is None:
                if says:
                    probs.append(f'{lang} withheld although the table offers it')
                continue
            if says is False:
                probs.append(f'{lang} offered although the table withholds it')
            try:
                den = arraycode.INTERPRETERS[lang](code)
                check_denotation(den, lang, numtype, bo, list(small_ext), exp)
            except IF as e:
                probs.append(f'{lang} ({mode}): real readcode() output is not well-formed: {e}: {code!r}')
            except Violation as v:
                probs.append(f'{lang} ({mode}): {v.what}: {code!r}')
        if lang not in LANGS and 'readcodelanguages' in what:
            offered = [l for l in LANGS if a.readcode(l) is not None]
            if tuple(sorted(offered)) != tuple(a.readcodelanguages):
                probs.append('readcodelanguages differs')
            rank2 = 1 if rank > 1 else 2
            ref2 = rp.values(np_, 3, (2,) if rank2 == 2 else (), numtype, bo)
            b = darr.asarray(tmp + '/other', ref2)
            want2 = tuple(sorted(l for l in LANGS if table_says(l, numtype, rank2)))
            if tuple(b.readcodelanguages) != want2:
                probs.append(f'readcodelanguages of a second array of rank {rank2} (same type, after querying a rank {rank} '
                             f'array in the same process) is {b.readcodelanguages}, table says {want2}')
    if probs:
        return {'reproduced': True, 'detail': '; '.join(probs[:3])[:1800]}
    return {'reproduced': False, 'detail': 'real readcode() output is well-formed and denotes the array'}


def conformance(tier):
    """execute the real generated Python-family snippets with the real NumPy on concrete arrays
    (distinct extents, distinct values, every path mode, and an empty array) and compare with
    the interpreters' concrete evaluation"""
    import warnings
    warnings.simplefilter('ignore')
    darr, np_ = rp.real()
    mism = []
    count = 0
    types = NUMTYPES if tier == 'thorough' else ['int8', 'uint16', 'float16', 'float64', 'complex64']
    with rp.scratch() as tmp:
        for nt in types:
            for bo in ('little', 'big'):
                for shape in (([3], [2, 3], [4, 2, 3], [0], [0, 2]) if tier == 'thorough' else ([3], [4, 2, 3], [0, 2])):
                    for lang in ('numpy', 'numpymemmap', 'python', 'darr'):
                        for mode in ('relative', 'base', 'abs'):
                            code, pr = _execute_python_family(darr, np_, tmp, nt, bo, shape, lang, mode)
                            if code is None:
                                continue
                            count += 1
                            known_mode = lang == 'numpymemmap' and "mode=" not in code
                            known_path = lang == 'python' and mode != 'relative'
                            for x in pr or []:
                                if known_mode or known_path:
                                    continue       # reported by the solver-side obligation with its own replay
                                mism.append(f'{nt} {bo} {shape} {lang} {mode}: {x}')
                            # interpreter agrees with execution about dims / dtype
                            try:
                                den = arraycode.INTERPRETERS[lang](code)
                            except IllFormed as e:
                                mism.append(f'{lang}: interpreter rejects code that executes: {e}')
                                continue
                            if den.get('placeholder'):
                                continue
                            if den['numtype'] != nt or (ITEMSIZE[nt] > 1 and den['byteorder'] != bo):
                                mism.append(f'{lang}: interpreter reads {den["numtype"]}/{den["byteorder"]} for {nt}/{bo}')
                            if den['dims'] is not None and [int(x) for x in den['dims']] != shape:
                                mism.append(f'{lang}: interpreter dims {den["dims"]} vs {shape}')
    return {'scenarios': count, 'mismatches': mism[:10], 'names': ['python-family snippets executed with real NumPy']}


def obligations(tier):
    thorough = tier == 'thorough'
    T = 600 if thorough else 150
    ranks = (1, 2, 3, 4) if thorough else (1, 2, 3)
    splits = [dict(numtype=nt, bo=bo, rank=r, relhandle=(i % 2 == 1))
              for i, nt in enumerate(NUMTYPES) for bo in ('little', 'big') for r in ranks]
    rs = [dict(version=v, withmeta=m, numtype=nt, bo=bo, atom=at)
          for v in ('same', '0.1.0', '0.3.3', '99.0.0')
          for (m, nt, bo, at) in ((False, 'int32', 'little', ()), (True, 'float64', 'big', (2,)))]
    return [Ob('RUN-READONLY', 'h_run_readonly', splits=rs, timeout=T, replay='replay_run_readonly',
               sym='n (rows, 0 included), probe',
               bounds='the Darr-language program (open with the default access mode, read everything, ask for read code) on '
                      'an array of n >= 0 rows whose description carries the running, an older (0.1.0, 0.3.3) or a newer '
                      '(99.0.0) darrversion, with and without metadata: every file of the array is unchanged afterwards'),
            Ob('DENOTE', 'h_readcode', splits=splits, timeout=T, replay='replay_readcode', stub_readme=False,
               regions=('matlab_complex_nd_quoting', 'python_ignores_path', 'numpymemmap_default_mode'),
               sym='n0..n(r-1) : extents >= 1 (unbounded up to 2^40)',
               bounds=f'13 types x 2 byte orders x rank 1..{ranks[-1]} x 12 languages x 3 path modes, extents symbolic; '
                      f'offered / withheld compared with the tables parsed from docs/readcode.rst at run time; '
                      f'outside: the truth of the foreign-language semantics encoded in vf/lang (trusted base)'),
            Ob('OFFSET', 'h_offsets', splits=[{}], timeout=120, replay='replay_readcode', kind='e2',
               sym='n_j, i_j', bounds='unbounded extents and indices, ranks 2..4; z3 4.8.12, z3 5.1, cvc5')]
