"""C05 - RaggedArray directory stays structurally well-formed and self-describing.
Same harness family as C04, asserted with the independent on-disk decoder
(common.decode_ragged; shares no code with Darr)."""
from . import c04
from .c04 import *   # harness functions + replay  # noqa

PROPERTY = 'C05'
ASSUMPTIONS = c04.ASSUMPTIONS


def obligations(tier):
    return c04.obligations(tier, mode='disk', prop='C05')


def conformance(tier):
    return c04.conformance(tier)
