"""C05 - RaggedArray directory stays structurally well-formed and self-describing.
Same harness family as C04, asserted with the independent on-disk decoder
(common.decode_ragged; shares no code with Darr)."""
from . import c04
from .c04 import *   # harness functions + replay  # noqa

PROPERTY = 'C05'
ASSUMPTIONS = c04.ASSUMPTIONS


from . import c10 as _c10
from ..runner import Ob

h_fail = _c10.h_fail            # a FAILED append is part of "any history": what it leaves must be well-formed too
replay_fail = _c10.replay_fail


def obligations(tier):
    obs = c04.obligations(tier, mode='disk', prop='C05')
    T = 900 if tier == 'thorough' else 300
    fs = [dict(K=1, F=2, j=1, kind=kd, numtype=nt, bo='little', atom=at, indextype=it, qneg=None, silent=False)
          for kd, nt, at, it in (('iterraise', 'int16', (), 'int64'), ('wrongatom', 'complex128', (2,), 'int64'),
                                 ('unconvertible', 'float32', (), 'int64'))]
    if tier == 'thorough':
        fs += [dict(K=2, F=2, j=j, kind='iterraise', numtype='uint8', bo='little', atom=(3,), indextype='int64', qneg=None,
                    silent=False) for j in (0, 1, 2)]
    obs.append(Ob('R-failed-append', 'h_fail', splits=fs, timeout=T, replay='replay_fail',
                  sym='l1..lK, k1, k2, q, probe',
                  bounds='the directory after an iterappend that FAILED part-way (iterable raises / wrong atom / unconvertible '
                         'item after one completed item), with value and index item sizes that differ: both sub-arrays '
                         'well-formed, indices tile the values (harness shared with C10)'))
    return obs


def conformance(tier):
    return c04.conformance(tier)
