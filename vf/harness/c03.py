"""C03 - Array histories of append / assign / truncate equal the NumPy model and persist."""
import itertools

from ..runner import Ob
from .common import *
from .. import replay as rp

PROPERTY = 'C03'
ASSUMPTIONS = ['N-bits', 'N-asarray', 'N-tofile', 'N-memmap', 'N-index', 'N-json', 'F-posix',
               'environment model vf.env (validated by the conformance scenarios of each run)',
               'CrossHair 0.0.110 / z3 5.1 are trusted for CONFIRMED']

D = loader.load(env=True, stub_readme=True)
np = symnp


def dt_of(numtype, bo):
    return np.SymDType(numtype, gt_of(numtype, bo))


def mk_input(form, k, atom, numtype, bo, idx):
    """(object handed to Darr, reference rows it must become in an array of `numtype`)."""
    src = ('in', idx)
    if form == 'same':
        return np.ndarray(dt_of(numtype, bo), (k,) + atom, Seq.of(src, k)), Seq.of(src, k)
    if form == 'otherbo':
        obo = 'big' if bo == 'little' else 'little'
        return np.ndarray(dt_of(numtype, obo), (k,) + atom, Seq.of(src, k)), Seq.of(src, k)
    if form in ('forder', 'strided'):
        # same values, other MEMORY LAYOUT (column-major / non-contiguous); what is stored is row-major all the same
        x = np.ndarray(dt_of(numtype, bo), (k,) + atom, Seq.of(src, k), order='F' if form == 'forder' else 'C')
        if form == 'strided' and len(atom) >= 1:
            x.flags.c_contiguous = x.flags.f_contiguous = False
        return x, Seq.of(src, k)
    if form == 'cast':
        other = 'float64' if numtype != 'float64' else 'int32'
        return (np.ndarray(dt_of(other, 'little'), (k,) + atom, Seq.of(src, k)),
                Seq.of(('cast', numtype, src), k))
    if form == 'list':
        t = ('typed', 'int64', src)
        r = t if numtype == 'int64' else ('cast', numtype, t)
        return np.SeqInput('int', k, atom, src), Seq.of(r, k)
    if form == 'zerodim':
        # a zero-dimensional ndarray is a number: appended to a 1-D array as one element
        r = src if numtype == 'float32' else ('cast', numtype, src)
        return np.ndarray(dt_of('float32', 'little'), (), Seq.of(src, 1)), Seq.of(r, 1)
    if form == 'scalar':
        t = ('typed', 'float64', src)
        r = t if numtype == 'float64' else ('cast', numtype, t)
        return np.ScalarInput('float', src), Seq.of(r, 1)
    raise AssertionError(form)


def open_rw(w, n, numtype, bo, atom):
    put_array(D, w, '/w/a', n, numtype, bo, atom)
    a = D.array.Array('/w/a', accessmode='r+')
    check_handle(a, numtype, gt_of(numtype, bo), (n,) + atom, 'initial handle')
    return a


def check_all(w, a, numtype, bo, shape, ref, probe, what):
    """live handle, fresh handle and independent decoder all show (shape, ref)."""
    gt = gt_of(numtype, bo)
    check_handle(a, numtype, gt, shape, what + ' live')
    check_content(read_all(a), ref, probe, what + ' live')
    b = D.array.Array('/w/a')
    check_handle(b, numtype, gt, shape, what + ' fresh')
    check_content(read_all(b), ref, probe, what + ' fresh')
    try:
        nt, bl, shp, rows, dt = decode_array(w, '/w/a')
    except DecodeError as e:
        raise Violation(f'{what}: on-disk format ill-formed: {e}')
    if nt != numtype or bl != bo or len(shp) != len(shape):
        raise Violation(f'{what}: descriptor disagrees', got=(nt, bl, shp))
    for x, y in zip(shp, shape):
        if x != y:
            raise Violation(f'{what}: descriptor shape differs')
    check_content(rows, ref, probe, what + ' decoder')
    no_open_handles(w, what)


# ---- S-iterappend / S-append -------------------------------------------------------------------
def h_iterappend(n: int, m: int, k1: int, k2: int, k3: int, k4: int, probe: int,
                 numtype='int32', bo='little', atom=(), forms=('same', 'cast'), F=2,
                 _gate=None, _small=False):
    """iterappend of m <= F chunks of lengths k_i (any form) to an array of n rows."""
    ks = [k1, k2, k3, k4][:F]
    assume(0 <= n <= BIG and 0 <= m <= F)
    for k in ks:
        assume(0 <= k <= BIG)
    for k in [k1, k2, k3, k4][F:]:
        assume(k == 0)
    small(_small, n, *ks)
    gate(_gate, {'empty_start_no_chunks': n == 0 and m == 0})
    w = new_world()
    a = open_rw(w, n, numtype, bo, atom)
    ref = Seq.of(('orig',), n)
    inputs = []
    total = n
    for i in range(F):
        if i < m:
            obj, r = mk_input(forms[i % len(forms)], ks[i], atom, numtype, bo, i + 1)
            inputs.append(obj)
            ref = ref.concat(r)
            total = total + r.length()

    def gen():
        for x in inputs:
            yield x
    try:
        a.iterappend(gen())
    except Exception as e:
        raise Violation(f'iterappend of compatible chunks raised {type(e).__name__}',
                        msg=holes.symstr(e))
    check_all(w, a, numtype, bo, (total,) + atom, ref, probe, 'after iterappend')
    # prefix preservation is structural: first n rows are the original rows
    if 0 <= probe < n:
        s, off = read_all(a).at(probe)
        if s != ('orig',) or off != probe:
            raise Violation('append changed previously stored rows')
    reach('end')


def h_append(n: int, k: int, probe: int, numtype='int32', bo='little', atom=(), form='same',
             _gate=None, _small=False):
    assume(0 <= n <= BIG and 0 <= k <= BIG)
    small(_small, n, k)
    w = new_world()
    a = open_rw(w, n, numtype, bo, atom)
    obj, r = mk_input(form, k, atom, numtype, bo, 1)
    try:
        a.append(obj)
    except Exception as e:
        raise Violation(f'append of compatible data raised {type(e).__name__}',
                        msg=holes.symstr(e))
    ref = Seq.of(('orig',), n).concat(r)
    check_all(w, a, numtype, bo, (n + r.length(),) + atom, ref, probe, 'after append')
    reach('end')


# ---- S-truncate ------------------------------------------------------------------------------------
def h_truncate(n: int, index: int, probe: int, numtype='int32', bo='little', atom=(),
               bypath=False, _gate=None, _small=False):
    assume(0 <= n <= BIG and -BIG <= index <= BIG)
    small(_small, n, index)
    w = new_world()
    a = open_rw(w, n, numtype, bo, atom)
    before = snap(w.lookup('/w/a/arrayvalues.bin'))
    # NumPy / Python slicing sense of a[:index]
    if index < 0:
        newlen = n + index if n + index > 0 else 0
    else:
        newlen = index if index < n else n
    legal = 0 <= newlen < n
    try:
        D.array.truncate_array('/w/a' if bypath else a, index)
        raised = None
    except Exception as e:
        raised = e
    if legal:
        reach('legal')
        if raised is not None:
            raise Violation(f'legal truncate raised {type(raised).__name__}',
                            msg=holes.symstr(raised))
        ref = Seq.of(('orig',), newlen)
        if bypath:
            a = D.array.Array('/w/a', 'r+')
        check_all(w, a, numtype, bo, (newlen,) + atom, ref, probe, 'after truncate')
    else:
        reach('illegal')
        if raised is None:
            raise Violation('truncate with a[:index] not strictly shorter did not raise')
        if not snap_same(before, snap(w.lookup('/w/a/arrayvalues.bin')), probe):
            raise Violation('rejected truncate changed the data file')
        check_all(w, a, numtype, bo, (n,) + atom, Seq.of(('orig',), n), probe,
                  'after rejected truncate')
    reach('end')


def h_truncate_badindex(n: int, probe: int, kind='float', _gate=None, _small=False):
    assume(1 <= n <= BIG)
    small(_small, n)
    w = new_world()
    a = open_rw(w, n, 'float64', 'little', ())
    before = snap(w.lookup('/w/a/arrayvalues.bin'))
    idx = {'float': 1.0, 'str': '1', 'none': None}[kind]
    try:
        D.array.truncate_array(a, idx)
        raise Violation(f'truncate with a {kind} index did not raise')
    except Violation:
        raise
    except Exception as e:
        pass
    if not snap_same(before, snap(w.lookup('/w/a/arrayvalues.bin')), probe):
        raise Violation('rejected truncate changed the data file')
    check_all(w, a, 'float64', 'little', (n,), Seq.of(('orig',), n), probe, 'after reject')
    reach('end')


# ---- S-reject-shape ----------------------------------------------------------------------------------
def h_reject(n: int, k: int, j: int, probe: int, atom=(2,), bad='atom', viaiter=False,
             _gate=None, _small=False):
    """an incompatible chunk (wrong trailing shape / rank) as first element: raises, nothing
    changes (chunks before a failing one are C09's subject)."""
    assume(0 <= n <= BIG and 0 <= k <= BIG)        # k = 0: data without elements but of incompatible shape
    small(_small, n, k)
    w = new_world()
    a = open_rw(w, n, 'int32', 'little', atom)
    before = snap(w.lookup('/w/a/arrayvalues.bin'))
    if bad == 'rank+0':
        batom = atom + (0,)          # one axis too many, of extent 0: no bytes at all, still incompatible
    elif bad == 'atom':
        batom = (3,) if atom == (2,) else (2,)
    elif bad == 'rank+':
        batom = atom + (2,)
    else:
        batom = atom[:-1]
    x = np.ndarray(dt_of('int32', 'little'), (k,) + batom, Seq.of(('in', 1), k))
    try:
        if viaiter:
            a.iterappend([x])
        else:
            a.append(x)
        raise Violation(f'append of an array with incompatible shape ({bad}) did not raise')
    except Violation:
        raise
    except Exception as e:
        pass
    if not snap_same(before, snap(w.lookup('/w/a/arrayvalues.bin')), probe):
        raise Violation('rejected append changed the data file')
    check_all(w, a, 'int32', 'little', (n,) + atom, Seq.of(('orig',), n), probe, 'after reject')
    reach('end')


# ---- S-assign ----------------------------------------------------------------------------------------
def h_assign(n: int, valid: bool, vok: bool, s0: int, s1: int, useslice: bool, probe: int,
             atom=(), _gate=None, _small=False):
    assume(0 <= n <= BIG)
    small(_small, n, s0, s1)
    w = new_world()
    a = open_rw(w, n, 'float32', 'big', atom)
    orig = Seq.of(('orig',), n)
    val = np.OpaqueValue('v', vok)
    if useslice:
        index = slice(s0, s1)
        from ..env.seq import clamp_slice
        lo, hi = clamp_slice(s0, s1, n)
        ref = orig.cut(0, lo).concat(Seq.of(('bcast', 'v', 'float32'), hi - lo)).concat(
            orig.cut(hi, n))
        ok = vok
    else:
        index = np.OpaqueIndex('i', valid)
        ref = None
        ok = valid and vok
    try:
        a[index] = val
        raised = None
    except Exception as e:
        raised = e
    if ok and n > 0:
        if raised is not None:
            raise Violation(f'valid assignment raised {type(raised).__name__}')
        got = read_all(a)
        if useslice:
            check_all(w, a, 'float32', 'big', (n,) + atom, ref, probe, 'after assign')
        else:
            # opaque index: content is the NumPy assignment applied to the previous content
            if got.length() != n:
                raise Violation('assignment changed the length')
            if n > 0 and 0 <= probe < n:
                s, off = got.at(probe)
                if s[0] != 'assigned' or s[1] != 'i' or s[2] != 'v':
                    raise Violation('assignment did not take effect')
                prev = s[3]
                if len(prev) != 1 or prev[0][0] != ('orig',) or prev[0][1] != 0 or prev[0][2] != n:
                    raise Violation('assignment applied to something other than the stored data')
            b = D.array.Array('/w/a')
            if not seq_equal(read_all(b), got, probe):
                raise Violation('assignment not visible to a fresh handle')
            no_open_handles(w, 'after assign')
        reach('assigned')
    elif not ok and n > 0:
        if raised is None:
            raise Violation('invalid assignment did not raise')
        check_all(w, a, 'float32', 'big', (n,) + atom, orig, probe, 'after rejected assign')
        reach('rejected')
    else:
        no_open_handles(w, 'assign on empty')
    reach('end')


# ---- S-mode + bounded sequences ------------------------------------------------------------------------
def h_seq(n: int, o1: int, o2: int, o3: int, x1: int, x2: int, x3: int, probe: int,
          L=2, atom=(), _gate=None, _small=False):
    """L symbolically chosen operations from an arbitrary valid state:
    0 append x rows, 1 truncate to x, 2 reopen, 3 mode r then append (must fail) then r+"""
    assume(0 <= n <= BIG)
    ops = [o1, o2, o3][:L]
    xs = [x1, x2, x3][:L]
    for o, x in zip(ops, xs):
        assume(0 <= o <= 3 and 0 <= x <= BIG)
    for o, x in zip([o1, o2, o3][L:], [x1, x2, x3][L:]):
        assume(o == 0 and x == 0)
    small(_small, n, *xs)
    gate(_gate, {})
    w = new_world()
    a = open_rw(w, n, 'int16', 'little', atom)
    ref = Seq.of(('orig',), n)
    cur = n
    for step in range(L):
        o, x = ops[step], xs[step]
        if o == 0:
            obj, r = mk_input('cast', x, atom, 'int16', 'little', step + 1)
            a.append(obj)
            ref = ref.concat(r)
            cur = cur + x
        elif o == 1:
            legal = 0 <= x < cur
            try:
                D.array.truncate_array(a, x)
                if not legal:
                    raise Violation('illegal truncate accepted in sequence')
                ref = ref.cut(0, x)
                cur = x
            except Violation:
                raise
            except Exception as e:
                if legal:
                    raise Violation(f'legal truncate raised {type(e).__name__} in sequence')
        elif o == 2:
            a = D.array.Array('/w/a', accessmode='r+')
        else:
            a.accessmode = 'r'
            try:
                a.append(mk_input('same', 1, atom, 'int16', 'little', 9)[0])
                raise Violation('append in mode r succeeded')
            except Violation:
                raise
            except Exception:
                pass
            a.accessmode = 'r+'
        check_all(w, a, 'int16', 'little', (cur,) + atom, ref, probe, f'step {step}')
    reach('end')


# ---- replay on the real code ----------------------------------------------------------------------------
def _mk_real(np_, form, k, atom, numtype, bo, base):
    if form == 'same':
        return rp.values(np_, k, atom, numtype, bo, base)
    if form == 'otherbo':
        return rp.values(np_, k, atom, numtype, 'big' if bo == 'little' else 'little', base)
    if form == 'forder':
        return np_.asfortranarray(rp.values(np_, k, atom, numtype, bo, base))
    if form == 'strided':
        return rp.values(np_, 2 * k, atom, numtype, bo, base)[::2]
    if form == 'cast':
        other = 'float64' if numtype != 'float64' else 'int32'
        return rp.values(np_, k, atom, other, 'little', base)
    if form == 'list':
        return rp.values(np_, k, atom, 'int64', 'little', base).tolist()
    if form == 'scalar':
        return float(base)
    if form == 'zerodim':
        return np_.array(float(base), dtype='float32')


def replay_generic(cex, d):
    """Re-run the counterexample on real darr and compare with the NumPy model."""
    darr, np_ = rp.real()
    ob = d.get('ob') or d.get('obligation')
    fx = dict(d.get('fixed') or {})
    fx.update(cex)
    with rp.scratch() as tmp:
        try:
            return _replay(darr, np_, ob, fx, tmp)
        except Exception as e:
            import traceback
            return {'reproduced': False, 'detail': 'replay error ' + traceback.format_exc()[-800:]}


def _state(np_, a, path, darr):
    b = darr.Array(path)
    return a[:], b[:], a.shape, b.shape, len(a), a.size, a.nbytes, a.dtype


def _replay(darr, np_, ob, fx, tmp):
    numtype = fx.get('numtype', 'int32')
    bo = fx.get('bo', 'little')
    atom = tuple(fx.get('atom', ()))
    n = int(fx.get('n', 0))
    if n > 5000:
        return {'reproduced': False, 'detail': f'n={n} too large to materialise'}
    path = tmp + '/a'
    if ob in ('S-assign',):
        numtype, bo = 'float32', 'big'
    if ob in ('SEQ',):
        numtype, bo = 'int16', 'little'
    if ob in ('S-reject', 'S-truncate-badindex'):
        numtype = 'int32' if ob == 'S-reject' else 'float64'
    orig = rp.values(np_, n, atom, numtype, bo, 1)
    a = darr.asarray(path, orig, accessmode='r+') if n > 0 else darr.create_array(
        path, shape=(0,) + atom, dtype=orig.dtype, accessmode='r+')
    model = orig.copy()
    problems = []

    def compare(tag):
        b = darr.Array(path)
        for nm, h in (('live', a), ('fresh', b)):
            got = h[:]
            if not rp.same(np_, got, model):
                problems.append(f'{tag}: {nm} contents/dtype/shape differ from NumPy model '
                                f'(got shape {got.shape} dtype {got.dtype}, want {model.shape} {model.dtype})')
            if (h.shape != model.shape or len(h) != model.shape[0] or h.size != model.size
                    or h.nbytes != model.nbytes):
                problems.append(f'{tag}: {nm} shape/len/size/nbytes differ')
        import json as _json
        import os as _os
        try:
            js = _json.load(open(path + '/arraydescription.json'))
            missing = [k for k in ('numtype', 'byteorder', 'shape', 'arrayorder', 'darrversion', 'darrobject') if k not in js]
            if missing:
                problems.append(f'{tag}: arraydescription.json lacks {missing}')
            elif tuple(js['shape']) != model.shape or js['numtype'] != model.dtype.name:
                problems.append(f'{tag}: descriptor shape/numtype {js["shape"]} {js["numtype"]} != {model.shape} {model.dtype.name}')
            if _os.path.getsize(path + '/arrayvalues.bin') != model.nbytes:
                problems.append(f'{tag}: data file length {_os.path.getsize(path + "/arrayvalues.bin")} != prod(shape)*itemsize {model.nbytes}')
            if not _os.path.exists(path + '/README.txt'):
                problems.append(f'{tag}: README.txt missing')
        except ValueError:
            problems.append(f'{tag}: arraydescription.json is not JSON')
        raw = np_.fromfile(path + '/arrayvalues.bin', dtype=model.dtype)
        if raw.size != model.size or not rp.same(np_, raw.reshape(model.shape), model):
            problems.append(f'{tag}: raw file differs from model')

    if ob in ('S-iterappend', 'S-append'):
        forms = fx.get('forms') or [fx.get('form', 'same')]
        F = int(fx.get('F', 1))
        if ob == 'S-append':
            ks, m = [int(fx['k'])], 1
        else:
            ks, m = [int(fx[f'k{i + 1}']) for i in range(F)], int(fx['m'])
        chunks = [_mk_real(np_, forms[i % len(forms)], ks[i], atom, numtype, bo, 100 * (i + 1))
                  for i in range(m)]
        try:
            if ob == 'S-append':
                a.append(chunks[0])
            else:
                a.iterappend(iter(chunks))
        except BaseException as e:
            return {'reproduced': True,
                    'detail': f'real darr raised {type(e).__name__}: {e} for compatible chunks '
                              f'n={n} ks={ks[:m]} forms={forms}'}
        for c in chunks:
            c = np_.asarray(c, dtype=model.dtype)
            if c.ndim == 0:
                c = c.reshape((1,))
            model = np_.concatenate([model, c.astype(model.dtype)], axis=0)
        compare('after append')
    elif ob in ('S-truncate',):
        index = int(fx['index'])
        newlen = len(model[:index])
        legal = 0 <= newlen < n
        try:
            darr.truncate_array(path if fx.get('bypath') else a, index)
            raised = None
        except Exception as e:
            raised = e
        if fx.get('bypath'):
            a = darr.Array(path, 'r+')
        if legal:
            if raised is not None:
                return {'reproduced': True, 'detail': f'legal truncate(n={n}, index={index}) raised {raised!r}'}
            model = model[:index]
        elif raised is None:
            return {'reproduced': True, 'detail': f'illegal truncate(n={n}, index={index}) accepted'}
        compare('after truncate')
    elif ob == 'S-truncate-badindex':
        idx = {'float': 1.0, 'str': '1', 'none': None}[fx['kind']]
        try:
            darr.truncate_array(a, idx)
            return {'reproduced': True, 'detail': f'truncate with {fx["kind"]} index accepted'}
        except Exception:
            pass
        compare('after rejected truncate')
    elif ob == 'S-reject':
        bad = fx['bad']
        batom = ((3,) if atom == (2,) else (2,)) if bad == 'atom' else (
            atom + (2,) if bad == 'rank+' else atom + (0,) if bad == 'rank+0' else atom[:-1])
        x = rp.values(np_, int(fx['k']), batom, 'int32', 'little', 50)
        try:
            if fx.get('viaiter'):
                a.iterappend([x])
            else:
                a.append(x)
            return {'reproduced': True, 'detail': f'incompatible append ({bad}) accepted'}
        except Exception:
            pass
        compare('after rejected append')
    elif ob == 'S-assign':
        if n == 0:
            return {'reproduced': False, 'detail': 'n=0'}
        if fx.get('useslice'):
            idx = slice(int(fx['s0']), int(fx['s1']))
        else:
            idx = slice(None, None, 2) if fx.get('valid') else (n + 5)
        val = 7 if fx.get('vok') else np_.zeros((n + 3,) + atom + (2,))
        try:
            ref = model.copy()
            ref[idx] = val
            okref = True
        except Exception:
            okref = False
        try:
            a[idx] = val
            okd = True
        except Exception:
            okd = False
        if okref != okd:
            return {'reproduced': True, 'detail': f'assignment a[{idx}]={val!r}: numpy ok={okref}, darr ok={okd}'}
        if okref:
            model = ref
        compare('after assign')
    elif ob == 'SEQ':
        L = int(fx.get('L', 2))
        for step in range(L):
            o, x = int(fx[f'o{step + 1}']), int(fx[f'x{step + 1}'])
            if o == 0:
                c = rp.values(np_, x, atom, 'float64', 'little', 100 * (step + 1))
                try:
                    a.append(c)
                except Exception as e:
                    return {'reproduced': True, 'detail': f'step {step}: append raised {e!r}'}
                model = np_.concatenate([model, c.astype(model.dtype)], axis=0)
            elif o == 1:
                legal = 0 <= x < model.shape[0]
                try:
                    darr.truncate_array(a, x)
                    if not legal:
                        return {'reproduced': True, 'detail': f'step {step}: illegal truncate accepted'}
                    model = model[:x]
                except Exception as e:
                    if legal:
                        return {'reproduced': True, 'detail': f'step {step}: legal truncate raised {e!r}'}
            elif o == 2:
                a = darr.Array(path, accessmode='r+')
            else:
                a.accessmode = 'r'
                try:
                    a.append(rp.values(np_, 1, atom, 'int16', 'little', 5))
                    return {'reproduced': True, 'detail': 'append in mode r succeeded'}
                except Exception:
                    pass
                a.accessmode = 'r+'
            compare(f'step {step}')
    if problems:
        return {'reproduced': True, 'detail': '; '.join(problems[:4])}
    return {'reproduced': False, 'detail': 'real darr agrees with the NumPy model on this input'}


# ---- obligations --------------------------------------------------------------------------------------
def obligations(tier):
    thorough = tier == 'thorough'
    F = 3 if thorough else 2
    T = 1200 if thorough else 150
    obs = []
    if thorough:
        # every type once per byte order, atoms rotated; sized so that the tier finishes in ~20 min on 16 cores
        cfgs = [(nt, bo, [(), (2,), (2, 3), (1,)][(i + j) % 4]) for i, nt in enumerate(NUMTYPES)
                for j, bo in enumerate(('little', 'big'))]
    else:
        cfgs = [('int32', 'little', ()), ('float64', 'big', (2,)), ('uint8', 'little', (1,)),
                ('complex64', 'big', (2, 3)), ('float16', 'little', ())]
    formsets = [('same', 'cast'), ('list', 'otherbo'), ('cast', 'same')]
    obs.append(Ob('S-iterappend', 'h_iterappend',
                  splits=[dict(numtype=nt, bo=bo, atom=at, forms=fs, F=F)
                          for ci, (nt, bo, at) in enumerate(cfgs) for fs in ((formsets[ci % 3],) if thorough else formsets[:2])],
                  timeout=T, regions=('empty_start_no_chunks',), replay='replay_generic',
                  sym='n, m, k1..kF, probe : int',
                  bounds=f'0<=n<=2^62, 0<=m<=F={F} chunks per call, 0<=k_i<=2^62 (rows unbounded); '
                         f'chunk forms same/cast/list/other byte order; outside: more than F chunks per call'))
    obs.append(Ob('S-append', 'h_append',
                  splits=[dict(numtype=nt, bo=bo, atom=at, form=f) for (nt, bo, at) in cfgs[:3]
                          for f in ('same', 'otherbo', 'cast', 'list')]
                  + [dict(numtype='float64', bo='big', atom=(2,), form='forder'),
                     dict(numtype='int16', bo='little', atom=(2, 3), form='forder'),
                     dict(numtype='int16', bo='little', atom=(3,), form='strided')]
                  + [dict(numtype='float64', bo='little', atom=(), form='scalar'),
                     dict(numtype='int8', bo='little', atom=(), form='scalar'),
                     dict(numtype='float32', bo='big', atom=(), form='zerodim'),
                     dict(numtype='int16', bo='little', atom=(), form='zerodim')],
                  timeout=T, replay='replay_generic', sym='n, k, probe : int',
                  bounds='0<=n,k<=2^62; one appended object of each input form (incl. column-major and strided ndarrays)'))
    obs.append(Ob('S-truncate', 'h_truncate',
                  splits=[dict(numtype=nt, bo=bo, atom=at, bypath=bp)
                          for (nt, bo, at) in cfgs[:3] for bp in (False, True)],
                  timeout=T, must_reach=('end', 'legal', 'illegal'), replay='replay_generic',
                  sym='n, index, probe : int', bounds='0<=n<=2^62, -2^62<=index<=2^62 (any int)'))
    obs.append(Ob('S-truncate-badindex', 'h_truncate_badindex',
                  splits=[dict(kind=k) for k in ('float', 'str', 'none')], timeout=T,
                  replay='replay_generic', sym='n, probe', bounds='1<=n<=2^62; index in {1.0, "1", None}'))
    obs.append(Ob('S-reject', 'h_reject',
                  splits=[dict(atom=at, bad=b, viaiter=v) for at in [(2,), (2, 3)]
                          for b in ('atom', 'rank+', 'rank+0', 'rank-') for v in (False, True)]
                  + [dict(atom=(), bad='rank+0', viaiter=v) for v in (False, True)],
                  timeout=T, replay='replay_generic', sym='n, k, probe',
                  bounds='0<=n<=2^62, 1<=k<=2^62; wrong trailing extent, one extra axis, one axis fewer'))
    obs.append(Ob('S-assign', 'h_assign', splits=[dict(atom=at) for at in [(), (2,)]],
                  timeout=T, must_reach=('end', 'assigned', 'rejected'), replay='replay_generic',
                  sym='n, valid, vok, s0, s1, useslice, probe',
                  bounds='0<=n<=2^62; index = opaque token with symbolic validity (covers every NumPy '
                         'index expression under N-index) or first-axis slice s0:s1 (any ints); value = '
                         'opaque broadcastable / non-broadcastable token'))
    obs.append(Ob('SEQ', 'h_seq', splits=[dict(L=3 if thorough else 2, atom=at) for at in [(), (2,)]],
                  timeout=T * 2, replay='replay_generic', sym='n, o1..oL, x1..xL, probe',
                  bounds=f'sequences of L={3 if thorough else 2} operations from {{append x rows (cast), '
                         f'truncate to x, reopen, mode r -> failed append -> r+}}, sizes unbounded'))
    return obs


def conformance(tier):
    from ..conformance import scenarios
    return scenarios.run(['array_basic', 'array_append', 'array_truncate', 'array_assign'])
