"""C02 - on-disk format is self-describing: the files alone reconstruct the array.

Every operation that completes is followed by the independent decoder
(common.decode_array: JSON keys numtype, byteorder, shape, arrayorder, darrversion,
darrobject; data length == prod(shape) * itemsize; README.txt present; values decoded with
the dtype's GROUND-TRUTH byte order) whose result must equal what the Darr API reports on
the live and a fresh handle.  The harnesses are those of C01 (creation), C03 (append,
iterappend, assignment, truncate, sequences) plus metadata create/delete and
overwrite=True re-creation defined here; the 13 x 2 descriptor <-> dtype table is
enumerated with the real NumPy."""
from ..runner import Ob
from .common import *
from . import c01, c03
from .c01 import h_asarray, h_create, h_table, replay_create   # noqa
from .c03 import (h_iterappend, h_append, h_truncate, h_assign, h_seq, replay_generic, check_all,
                  dt_of, mk_input)   # noqa
from .. import replay as rp
from . import c09
from .c09 import h_fail, replay_fail   # noqa

PROPERTY = 'C02'
ASSUMPTIONS = c01.ASSUMPTIONS
D = loader.load(env=True, stub_readme=True)
np = symnp


def h_meta_readme(n: int, probe: int, op='create', numtype='int16', bo='big', atom=(2,),
                  _gate=None, _small=False):
    """metadata creation / deletion rewrites README.txt: the directory stays decodable"""
    assume(0 <= n <= BIG)
    w = new_world()
    put_array(D, w, '/w/a', n, numtype, bo, atom, metadata={'k': 1} if op == 'delete' else None)
    a = D.array.Array('/w/a', accessmode='r+')
    if op == 'create':
        a.metadata['x'] = [1, 2]
    else:
        a.metadata.pop('k')
    check_all(w, a, numtype, bo, (n,) + atom, Seq.of(('orig',), n), probe, f'after metadata {op}')
    reach('end')


def h_recreate(n: int, k: int, probe: int, prev='larger', numtype='float32', atom=(),
               _gate=None, _small=False):
    """overwrite=True re-creation over {array with metadata, larger, smaller array}"""
    assume(0 <= n <= BIG and 0 <= k <= 2 * 1024 ** 2)
    if prev == 'larger':
        assume(n > k)
    elif prev == 'smaller':
        assume(n < k)
    w = new_world()
    put_array(D, w, '/w/a', n, 'int64', 'big', (3,), metadata={'old': 1} if prev == 'withmeta' else None)
    x = np.ndarray(dt_of(numtype, 'little'), (k,) + atom, Seq.of(('in', 1), k))
    try:
        a = D.array.asarray('/w/a', x, overwrite=True, accessmode='r+')
    except Exception as e:
        raise Violation(f'overwrite=True re-creation raised {type(e).__name__}', msg=holes.symstr(e))
    check_all(w, a, numtype, 'little', (k,) + atom, Seq.of(('in', 1), k), probe, 'after re-creation')
    if w.lookup('/w/a/metadata.json') is not None:
        raise Violation('metadata.json of the previous occupant survived')
    reach('end')


def replay_c02(cex, d):
    ob = d.get('ob') or d.get('obligation')
    if ob.startswith('O'):
        return c01.replay_create(cex, d)
    if ob in ('M-readme', 'M-recreate'):
        import json, os, warnings
        warnings.simplefilter('ignore')
        darr, np_ = rp.real()
        fx = dict(d.get('fixed') or {})
        fx.update(cex)
        n = int(fx['n'])
        if n > 5000:
            return {'reproduced': False, 'skip': True, 'detail': 'too large'}
        probs = []
        with rp.scratch() as tmp:
            p = tmp + '/a'
            if ob == 'M-readme':
                atom = tuple(fx['atom'])
                orig = rp.values(np_, max(n, 0), atom, fx['numtype'], fx['bo'])
                md = {'k': 1} if fx['op'] == 'delete' else None
                a = darr.asarray(p, orig, metadata=md, accessmode='r+') if n else darr.create_array(
                    p, shape=(0,) + atom, dtype=orig.dtype, metadata=md)
                if fx['op'] == 'create':
                    a.metadata['x'] = [1, 2]
                else:
                    a.metadata.pop('k')
                ref = orig
            else:
                k = int(fx['k'])
                if k > 5000:
                    return {'reproduced': False, 'skip': True, 'detail': 'too large'}
                darr.asarray(p, rp.values(np_, max(n, 1), (3,), 'int64', 'big'),
                             metadata={'old': 1} if fx['prev'] == 'withmeta' else None)
                ref = rp.values(np_, k, tuple(fx['atom']), fx['numtype'], 'little')
                try:
                    a = darr.asarray(p, ref, overwrite=True)
                except Exception as e:
                    return {'reproduced': True, 'detail': f'raised {e!r}'}
                if os.path.exists(p + '/metadata.json'):
                    probs.append('stale metadata.json')
            c01._cmp(darr, np_, p, a, ref, probs)
            if not os.path.exists(p + '/README.txt'):
                probs.append('README.txt missing')
        if probs:
            return {'reproduced': True, 'detail': '; '.join(probs[:4])}
        return {'reproduced': False, 'detail': 'files decode to the API-visible array'}
    return c03.replay_generic(cex, d)


def obligations(tier):
    obs = []
    for o in c01.obligations(tier):
        if o.name in ('O1-ndarray', 'O4-iterator', 'O6-fill', 'O9-table'):
            o.replay = 'replay_c02'
            if o.name == 'O1-ndarray' and tier != 'thorough':
                o.splits = o.splits[::2]
            obs.append(o)
    for o in c03.obligations(tier):
        if o.name in ('S-iterappend', 'S-truncate', 'S-assign', 'SEQ'):
            o.replay = 'replay_c02'
            if o.name == 'S-iterappend' and tier != 'thorough':
                o.splits = o.splits[1::2]
            obs.append(o)
    for o in c09.obligations(tier):
        if o.name == 'FAIL-limit':
            o2 = Ob('FAIL-limit-decodable', o.fn, splits=o.splits[:2], timeout=o.timeout, replay='replay_fail', sym=o.sym,
                    bounds=o.bounds)
            obs.append(o2)     # after a refused write the files must still satisfy the size equation
        ctxs = [sp for sp in o.splits if sp.get('ctx')]
        if ctxs:
            o.splits = ctxs
            o.name = o.name + '-in-context'
            obs.append(o)     # failed append inside an open_array() context: the directory must stay decodable
    T = 600 if tier == 'thorough' else 150
    obs.append(Ob('M-readme', 'h_meta_readme',
                  splits=[dict(op=op, numtype=nt, bo=bo, atom=at) for op in ('create', 'delete')
                          for (nt, bo, at) in [('int16', 'big', (2,)), ('float64', 'little', ())]],
                  timeout=T, replay='replay_c02', sym='n, probe', bounds='n >= 0 unbounded; metadata creation / deletion'))
    obs.append(Ob('M-recreate', 'h_recreate',
                  splits=[dict(prev=pv, numtype=nt, atom=at) for pv in ('larger', 'smaller', 'withmeta')
                          for (nt, at) in [('float32', ()), ('uint16', (2,))]],
                  timeout=T, replay='replay_c02', sym='n (previous occupant rows), k (new rows), probe',
                  bounds='previous occupant larger / smaller / with metadata; new array k <= 2^21 rows (one chunk)'))
    return obs


def conformance(tier):
    from ..conformance import scenarios
    return scenarios.run(['array_basic', 'creation', 'array_append', 'array_truncate', 'array_assign'])
