"""C11 - read-only access mode is enforced for every mutating operation."""
from ..runner import Ob
from .common import *
from .. import replay as rp
from .c03 import mk_input, dt_of, ASSUMPTIONS
from .c04 import lens_of, RA

PROPERTY = 'C11'
D = loader.load(env=True, stub_readme=True)
np = symnp

ARRAY_MUTATORS = ['setitem', 'append', 'iterappend', 'truncate', 'delete', 'md-update', 'md-setitem',
                  'md-pop', 'md-popitem', 'md-del']
RAGGED_MUTATORS = ['append', 'iterappend', 'truncate', 'delete', 'md-update', 'md-setitem', 'md-pop',
                   'md-popitem', 'md-del']


def get_readonly(kind, how, path):
    """a handle in mode 'r', obtained in one of the documented ways"""
    cls = D.array.Array if kind == 'array' else RA.RaggedArray
    if how == 'default':
        return cls(path)
    if how == 'explicit':
        return cls(path, accessmode='r')
    if how == 'assigned':
        h = cls(path, accessmode='r+')
        h.accessmode = 'r'
        return h
    if how == 'after-write':
        # a handle that HAS successfully written in r+ and is then switched to r
        h = cls(path, accessmode='r+')
        h.metadata.update({'k': 1}) if False else None
        if kind == 'array':
            h.append(np.ndarray(np.SymDType('int32'), (1,) + tuple(h.shape[1:]), Seq.of(('pre',), 1)))
            D.array.truncate_array(h, len(h) - 1)
        else:
            h.append(np.ndarray(np.SymDType('int32'), (1,) + tuple(h.atom), Seq.of(('pre',), 1)))
            RA.truncate_raggedarray(h, len(h) - 1)
        h.accessmode = 'r'
        return h
    if how == 'md-direct':
        h = cls(path)
        h.metadata.accessmode = 'r+'       # the metadata object's own (public) mode attribute
        h.accessmode = 'r'
        return h
    if how == 'toggled':
        h = cls(path)
        h.accessmode = 'r+'
        h.accessmode = 'r'
        return h
    raise AssertionError(how)


def mutate(kind, h, mut, k, idxvalid, chunk):
    if mut == 'setitem':
        h[np.OpaqueIndex('i', idxvalid)] = np.OpaqueValue('v', True)
    elif mut == 'append':
        h.append(chunk)
    elif mut == 'iterappend':
        h.iterappend([chunk])
    elif mut == 'truncate':
        if kind == 'array':
            D.array.truncate_array(h, 0)
        else:
            RA.truncate_raggedarray(h, 0)
    elif mut == 'delete':
        if kind == 'array':
            D.array.delete_array(h)
        else:
            RA.delete_raggedarray(h)
    elif mut == 'md-update':
        h.metadata.update({'new': 1})
    elif mut == 'md-setitem':
        h.metadata['new'] = 1
    elif mut == 'md-pop':
        h.metadata.pop('k')
    elif mut == 'md-popitem':
        h.metadata.popitem()
    elif mut == 'md-del':
        del h.metadata['k']
    else:
        raise AssertionError(mut)


def h_readonly(n: int, l2: int, k: int, idxvalid: bool, probe: int, kind='array', mut='append',
               how='default', withmeta=True, atom=(), K=2, _gate=None, _small=False):
    assume(0 <= n <= RBIG and 0 <= l2 <= RBIG and 0 <= k <= RBIG)
    small(_small, n, l2, k)
    w = new_world()
    md = ({'k': 1, 'z': [1, 2]} if withmeta != 'single' else {'k': 1}) if withmeta else None
    if kind == 'array':
        assume(l2 == 0)
        put_array(D, w, '/w/x', n, 'int32', 'little', atom, metadata=md)
        assume(mut != 'truncate' or n >= 1)       # truncate to 0 is only legal for n >= 1
        empty = (n == 0)
    else:
        lens = [n, l2][:K]
        if K < 2:
            assume(l2 == 0)
        put_ragged(D, w, '/w/x', lens, 'int32', 'little', atom, metadata=md)
        empty = (n + l2 == 0)
    if mut in ('md-pop', 'md-popitem', 'md-del'):
        assume(withmeta)
    chunk = mk_input('same', k, atom, 'int32', 'little', 1)[0]
    gate(_gate, {'empty_array_substitute_writeable': kind == 'array' and empty and mut in ('setitem', 'delete'),
                 'ragged_truncate_empty_values': kind == 'ragged' and empty and mut == 'truncate'})
    h = get_readonly(kind, how, '/w/x')
    before = snap(w.lookup('/w/x'))
    try:
        mutate(kind, h, mut, k, idxvalid, chunk)
        raised = None
    except Exception as e:
        raised = e
    after_node = w.lookup('/w/x')
    if after_node is None:
        raise Violation(f'{mut} through a read-only handle removed the array')
    if not snap_same(before, snap(after_node), probe):
        raise Violation(f'{mut} through a read-only handle changed files of the array')
    if raised is None:
        raise Violation(f'{mut} through a read-only handle did not raise')
    no_open_handles(w, 'after refused mutation')
    reach('refused')
    # after switching to r+ the same operation succeeds
    h.accessmode = 'r+'
    if mut == 'setitem' and (not idxvalid or empty):
        reach('end')
        return
    try:
        mutate(kind, h, mut, k, idxvalid, chunk)
    except Exception as e:
        if mut == 'truncate' and kind == 'ragged' and False:
            pass
        raise Violation(f"{mut} still raises {type(e).__name__} after accessmode = 'r+'",
                        msg=holes.symstr(e))
    reach('succeeded')
    reach('end')


# ---- replay ------------------------------------------------------------------------------------------
def replay_readonly(cex, d):
    import os
    import hashlib
    import warnings
    warnings.simplefilter('ignore')
    darr, np_ = rp.real()
    fx = dict(d.get('fixed') or {})
    fx.update(cex)
    kind, mut, how = fx['kind'], fx['mut'], fx['how']
    n, l2, k = int(fx['n']), int(fx.get('l2', 0)), int(fx['k'])
    if max(n, l2, k) > 3000:
        return {'reproduced': False, 'skip': True, 'detail': 'too large'}
    atom = tuple(fx.get('atom', ()))
    md = ({'k': 1, 'z': [1, 2]} if fx.get('withmeta') != 'single' else {'k': 1}) if fx.get('withmeta') else None

    def tree(p):
        out = {}
        for dp, dns, fns in os.walk(p):
            for fn in fns:
                fp = os.path.join(dp, fn)
                out[os.path.relpath(fp, p)] = hashlib.sha256(open(fp, 'rb').read()).hexdigest()
            for dn in dns:
                out[os.path.relpath(os.path.join(dp, dn), p) + '/'] = 'dir'
        return out
    with rp.scratch() as tmp:
        p = tmp + '/x'
        if kind == 'array':
            if n > 0:
                darr.asarray(p, rp.values(np_, n, atom, 'int32'), metadata=md)
            else:
                darr.create_array(p, shape=(0,) + atom, dtype='int32', metadata=md)
            cls = darr.Array
        else:
            lens = [n, l2][:int(fx.get('K', 2))]
            darr.asraggedarray(p, [rp.values(np_, l, atom, 'int32', base=1 + 9 * i) for i, l in enumerate(lens)],
                               metadata=md)
            cls = darr.RaggedArray
        if how == 'default':
            h = cls(p)
        elif how == 'explicit':
            h = cls(p, accessmode='r')
        elif how == 'assigned':
            h = cls(p, accessmode='r+')
            h.accessmode = 'r'
        elif how == 'after-write':
            h = cls(p, accessmode='r+')
            one = rp.values(np_, 1, atom, 'int32', base=999)
            h.append(one)
            (darr.truncate_array if kind == 'array' else darr.truncate_raggedarray)(h, len(h) - 1)
            h.accessmode = 'r'
        elif how == 'md-direct':
            h = cls(p)
            h.metadata.accessmode = 'r+'
            h.accessmode = 'r'
        else:
            h = cls(p)
            h.accessmode = 'r+'
            h.accessmode = 'r'
        before = tree(p)
        chunk = rp.values(np_, k, atom, 'int32', base=500)

        def do():
            if mut == 'setitem':
                if fx.get('idxvalid'):
                    h[:] = 1
                else:
                    h[n + 7] = 1
            elif mut == 'append':
                h.append(chunk)
            elif mut == 'iterappend':
                h.iterappend([chunk])
            elif mut == 'truncate':
                (darr.truncate_array if kind == 'array' else darr.truncate_raggedarray)(h, 0)
            elif mut == 'delete':
                (darr.delete_array if kind == 'array' else darr.delete_raggedarray)(h)
            elif mut == 'md-update':
                h.metadata.update({'new': 1})
            elif mut == 'md-setitem':
                h.metadata['new'] = 1
            elif mut == 'md-pop':
                h.metadata.pop('k')
            elif mut == 'md-popitem':
                h.metadata.popitem()
            elif mut == 'md-del':
                del h.metadata['k']
        try:
            do()
            raised = None
        except Exception as e:
            raised = e
        after = tree(p) if os.path.exists(p) else None
        probs = []
        if after is None:
            probs.append(f'{mut} through a read-only {kind} handle DELETED the array')
        elif after != before:
            probs.append(f'{mut} through a read-only {kind} handle changed files: '
                         f'{sorted(set(before.items()) ^ set(after.items()))[:3]}')
        if raised is None:
            probs.append(f'{mut} through a read-only {kind} handle (n={n}) did not raise')
        if not probs and os.path.exists(p):
            h.accessmode = 'r+'
            if not (mut == 'setitem' and (not fx.get('idxvalid') or n + l2 == 0)):
                try:
                    do()
                except Exception as e:
                    probs.append(f"{mut} raises {type(e).__name__}: {e} after accessmode='r+'")
    if probs:
        return {'reproduced': True, 'detail': '; '.join(probs)}
    return {'reproduced': False, 'detail': 'real darr refuses and leaves files identical'}


def obligations(tier):
    thorough = tier == 'thorough'
    T = 600 if thorough else 150
    hows = ['default', 'explicit', 'assigned', 'toggled', 'md-direct', 'after-write']
    obs = []
    asplits = []
    for i, mut in enumerate(ARRAY_MUTATORS):
        for wm in (True, False):
            if not wm and mut in ('md-pop', 'md-popitem', 'md-del'):
                continue
            for how in (hows if thorough else [hows[(i + (1 if wm else 0)) % 4], 'assigned'] + (['md-direct'] if mut.startswith('md-') else [])):
                for at in ([(), (2,)] if thorough else [()] if i % 2 else [(2,)]):
                    asplits.append(dict(kind='array', mut=mut, how=how, withmeta=wm, atom=at,
                                        _must=('end', 'refused') if mut == 'delete' else ('end', 'refused', 'succeeded')))
    # histories the seeded changes taught us: a handle that already wrote successfully, and metadata
    # holding exactly one item (popitem / pop / del then REMOVE the file instead of rewriting it)
    for mut in ARRAY_MUTATORS:
        asplits.append(dict(kind='array', mut=mut, how='after-write', withmeta=True, atom=(),
                            _must=('end', 'refused') if mut == 'delete' else ('end', 'refused', 'succeeded')))
    for mut in ('md-pop', 'md-popitem', 'md-del', 'md-update'):
        for kd in ('array', 'ragged'):
            (asplits if kd == 'array' else None)
    single = [dict(kind=kd, mut=mut, how=how, withmeta='single', atom=(), K=1, _must=('end', 'refused', 'succeeded'))
              for mut in ('md-pop', 'md-popitem', 'md-del', 'md-update') for kd in ('array', 'ragged')
              for how in ('default', 'assigned')]
    asplits += [sp for sp in single if sp['kind'] == 'array']
    obs.append(Ob('RO-array', 'h_readonly', splits=asplits, timeout=T, replay='replay_readonly',
                  regions=('empty_array_substitute_writeable',),
                  sym='n (rows, >= 0 so the empty-array path is a value), k, idxvalid, probe',
                  bounds='n, k unbounded; every mutating entry point x how r was obtained x with/without metadata; '
                         'element assignment with an opaque (valid or invalid) index'))
    rsplits = []
    for i, mut in enumerate(RAGGED_MUTATORS):
        for wm in (True, False):
            if not wm and mut in ('md-pop', 'md-popitem', 'md-del'):
                continue
            for how in (hows if thorough else [hows[(i + (2 if wm else 0)) % 4]] + (['md-direct'] if mut.startswith('md-') else [])):
                for K in ((1, 2) if thorough else (2,)):
                    rsplits.append(dict(kind='ragged', mut=mut, how=how, withmeta=wm, atom=() if i % 2 else (2,), K=K,
                                        _must=('end', 'refused') if mut == 'delete' else ('end', 'refused', 'succeeded')))
    rsplits += [sp for sp in single if sp['kind'] == 'ragged']
    for mut in ('truncate', 'delete', 'append'):
        rsplits.append(dict(kind='ragged', mut=mut, how='after-write', withmeta=False, atom=(), K=2,
                            _must=('end', 'refused') if mut == 'delete' else ('end', 'refused', 'succeeded')))
    obs.append(Ob('RO-ragged', 'h_readonly', splits=rsplits, timeout=T, replay='replay_readonly',
                  regions=('ragged_truncate_empty_values',),
                  sym='n, l2 (subarray lengths >= 0: ragged with empty values is a value), k, probe',
                  bounds='K<=2 subarrays of unbounded length; every mutating entry point'))
    return obs


def conformance(tier):
    from ..conformance import scenarios
    return scenarios.run(['readonly'])
