"""C12 - indexing reads and writes follow NumPy semantics, as detached copies, durably."""
from ..runner import Ob
from .common import *
from .. import replay as rp
from .c03 import mk_input, dt_of, ASSUMPTIONS as _A
from ..env.symnp import UseAfterUnmap
from ..env.seq import clamp_slice

PROPERTY = 'C12'
ASSUMPTIONS = _A + ['N-index: indexing a memmap equals indexing the equivalent ndarray (an opaque index token '
                    'with symbolic validity stands for every NumPy index expression)',
                    'a view of a memory map dangles after _mmap.close() (use = UseAfterUnmap in the model, '
                    'SIGSEGV in reality)']
D = loader.load(env=True, stub_readme=True)
np = symnp


def use(v, what):
    """touch the data of a returned value: a view of an unmapped file would crash here"""
    try:
        if isinstance(v, np.ndarray):
            v._check_alive()          # a view of a memory map that has been closed dangles
            return v._rows()
        return None
    except UseAfterUnmap:
        raise Violation(f'{what}: the returned array is a view of a memory map that Darr has closed '
                        f'(using it would read unmapped memory)')


def h_access(n: int, valid1: bool, valid2: bool, vok: bool, s0: int, s1: int, k: int,
             probe: int, ctx=False, acc=('read-opaque', 'write-slice'), atom=(), numtype='float32', bo='big',
             _gate=None, _small=False):
    """two accesses (acc[0], acc[1]) inside or outside one open_array() context, then the file is
    changed (append) and the values returned earlier are used again."""
    assume(1 <= n <= BIG and 0 <= k <= BIG)
    small(_small, n, s0, s1, k)
    w = new_world()
    put_array(D, w, '/w/a', n, numtype, bo, atom)
    a = D.array.Array('/w/a', accessmode='r+')
    ref = Seq.of(('orig',), n)
    dt = dt_of(numtype, bo)
    results = []
    valids = [valid1, valid2]
    held = []        # the caller KEEPS the exception objects of failed accesses (logging, pytest.raises, ..):
                     # traceback -> frame -> locals must not keep a file or mapping open

    def one(i, kind):
        nonlocal ref
        valid = valids[i]
        if kind == 'read-opaque':
            idx = np.OpaqueIndex(f'i{i}', valid)
            exp_ok = valid
            exp = Seq.of(('indexed', f'i{i}', np._segs_key(ref)), 1)
        elif kind == 'read-slice':
            idx = slice(s0, s1)
            exp_ok = True
            lo, hi = clamp_slice(s0, s1, n)
            exp = ref.cut(lo, hi)
        elif kind == 'read-int':
            idx = s0
            exp_ok = -n <= s0 < n
            q = s0 + n if s0 < 0 else s0
            exp = None
            if exp_ok:
                src, off = ref.at(q)
                exp = Seq.of(('sub', src, off), atom[0]) if atom else Seq((Seg(src, off, off + 1),))
        elif kind in ('read-ell', 'read-ell-lead'):
            # a tuple index with an Ellipsis that stands for no axis (1-D) or for the trailing axes
            idx = (s0, Ellipsis) if kind == 'read-ell' else (Ellipsis, s0)
            if kind == 'read-ell-lead' and atom != ():
                idx = (s0, Ellipsis)
            exp_ok = -n <= s0 < n
            q = s0 + n if s0 < 0 else s0
            exp = None
            if exp_ok:
                src, off = ref.at(q)
                exp = Seq.of(('sub', src, off), atom[0]) if atom else Seq((Seg(src, off, off + 1),))
        elif kind == 'write-ell':
            idx = (s0, Ellipsis) if atom else (Ellipsis, s0)
            exp_ok = vok and -n <= s0 < n
        elif kind == 'write-opaque':
            idx = np.OpaqueIndex(f'i{i}', valid)
            exp_ok = valid and vok
        elif kind == 'write-slice':
            idx = slice(s0, s1)
            exp_ok = vok
        if kind.startswith('read'):
            try:
                v = a[idx]
                err = None
            except Exception as e:
                v, err = None, e
                held.append(e)
            if exp_ok:
                if err is not None:
                    raise Violation(f'{kind}: valid index raised {type(err).__name__}')
                got = use(v, kind)
                if v.dtype.name != numtype or v.dtype.gt != dt.gt:
                    raise Violation(f'{kind}: dtype of the result differs')
                if kind == 'read-slice':
                    if v.shape[0] != exp.length() or tuple(v.shape[1:]) != tuple(atom):
                        raise Violation(f'{kind}: shape of the result differs')
                if kind == 'read-int' and atom == ():
                    if v.ndim != 0:
                        raise Violation('a[int] on a 1-D array is not a scalar')
                if not seq_equal(got, exp, probe):
                    raise Violation(f'{kind}: result differs from reference[idx]', got=repr(got),
                                    want=repr(exp))
                results.append((v, exp, kind))
                reach('read-ok')
            else:
                if err is None:
                    raise Violation(f'{kind}: invalid index did not raise')
                if not isinstance(err, IndexError):
                    raise Violation(f'{kind}: invalid index raised {type(err).__name__}, NumPy raises IndexError')
                reach('read-err')
        else:
            val = np.OpaqueValue('v', vok)
            try:
                a[idx] = val
                err = None
            except Exception as e:
                err = e
                held.append(e)
            if exp_ok:
                if err is not None:
                    raise Violation(f'{kind}: valid assignment raised {type(err).__name__}')
                if kind == 'write-ell':
                    q = s0 + n if s0 < 0 else s0
                    ref = ref.cut(0, q).concat(Seq.of(('bcast', 'v', numtype), 1)).concat(ref.cut(q + 1, n))
                elif kind == 'write-slice':
                    lo, hi = clamp_slice(s0, s1, n)
                    ref = ref.cut(0, lo).concat(Seq.of(('bcast', 'v', numtype), hi - lo)).concat(
                        ref.cut(hi, n))
                else:
                    ref = Seq.of(('assigned', f'i{i}', 'v', np._segs_key(ref)), n)
                reach('write-ok')
            else:
                if err is None:
                    raise Violation(f'{kind}: invalid assignment did not raise')
                reach('write-err')

    if ctx:
        with a.open_array():           # default mode = the handle's mode (r+)
            one(0, acc[0])
            one(1, acc[1])
            if w.open_handles() == 0:
                raise Violation('inside open_array() no file is open')
    else:
        one(0, acc[0])
        if w.open_handles() != 0:
            raise Violation(f'after {acc[0]} a file object or memory map is still open')
        one(1, acc[1])
    no_open_handles(w, 'after the accesses')
    # durability: live handle, fresh handle and raw file show the assignments
    for nm, h in (('live', a), ('fresh', D.array.Array('/w/a'))):
        if not seq_equal(read_all(h), ref, probe):
            raise Violation(f'{nm} handle does not show the NumPy result of the assignments',
                            got=repr(read_all(h)), want=repr(ref))
    try:
        nt, bl, shp, rows, _ = decode_array(w, '/w/a')
    except DecodeError as e:
        raise Violation(f'on-disk format ill-formed after indexing: {e}')
    if not seq_equal(rows, ref, probe):
        raise Violation('raw file does not show the assignment')
    # whatever happens to the file afterwards, earlier results stay valid and unchanged
    a.append(mk_input('same', k, atom, numtype, bo, 5)[0])
    a[slice(0, 1)] = np.OpaqueValue('later', True)
    for (v, exp, kind) in results:
        got = use(v, kind + ' (after later file changes)')
        if not seq_equal(got, exp, probe):
            raise Violation(f'{kind}: a previously returned array changed when the file changed')
    no_open_handles(w, 'end')
    reach('end')


def h_nested(n: int, vok: bool, s0: int, s1: int, probe: int, outer='r', inner='r+', via='context', atom=(),
             _gate=None, _small=False):
    """a context (or chunk iterator) that asks for ANOTHER access mode than the one the array is already open in:
    whether the request is honoured, ignored or refused, nothing stays open once every context is left, and
    the handle works as before afterwards"""
    assume(1 <= n <= BIG)
    small(_small, n, s0, s1)
    w = new_world()
    put_array(D, w, '/w/a', n, 'int16', 'little', atom)
    a = D.array.Array('/w/a', accessmode='r+')
    ref = Seq.of(('orig',), n)
    held = []
    with a.open_array(accessmode=outer):
        try:
            if via == 'context':
                with a.open_array(accessmode=inner):
                    try:
                        a[slice(s0, s1)] = np.OpaqueValue('v', vok)
                        wrote = True
                    except Exception as e:
                        held.append(e)
                        wrote = False
            else:
                wrote = False
                for ch in a.iterchunks(1, accessmode=inner):
                    break
        except Exception as e:
            held.append(e)
            wrote = False
        if wrote:
            lo, hi = clamp_slice(s0, s1, n)
            ref = ref.cut(0, lo).concat(Seq.of(('bcast', 'v', 'int16'), hi - lo)).concat(ref.cut(hi, n))
        if w.open_handles() == 0:
            raise Violation('inside the outer open_array() context no file is open')
        got = use(a[slice(0, 1)], 'read inside the outer context')
    if w.open_handles() != 0:
        raise Violation(f'after leaving an open_array({outer!r}) context in which {via} asked for {inner!r}, a file '
                        f'object or memory map is still open')
    v = a[slice(s0, s1)]
    no_open_handles(w, 'after a later read')
    for nm, h in (('live', a), ('fresh', D.array.Array('/w/a'))):
        if not seq_equal(read_all(h), ref, probe):
            raise Violation(f'{nm} handle does not show the array as NumPy semantics leave it')
    no_open_handles(w, 'end')
    reach('end')


def _replay_nested(cex, d):
    import os
    import warnings
    warnings.simplefilter('ignore')
    darr, np_ = rp.real()
    fx = dict(d.get('fixed') or {})
    fx.update(cex)
    n = min(int(fx['n']), 50)
    atom = tuple(fx.get('atom', ()))
    s0, s1 = int(fx['s0']), int(fx['s1'])
    probs = []
    with rp.scratch() as tmp:
        p = tmp + '/a'
        a = darr.asarray(p, rp.values(np_, n, atom, 'int16', 'little'), accessmode='r+')
        held = []

        def fds():
            rp_ = os.path.realpath(p)
            return [x for x in os.listdir('/proc/self/fd')
                    if os.path.realpath(f'/proc/self/fd/{x}').startswith(rp_)] + \
                   ['map:' + ln.split()[0] for ln in open('/proc/self/maps') if rp_ in ln]
        with a.open_array(accessmode=fx['outer']):
            try:
                if fx['via'] == 'context':
                    with a.open_array(accessmode=fx['inner']):
                        try:
                            a[s0:s1] = 3 if fx['vok'] else np_.zeros((n + 2,) + atom + (3,))
                        except Exception as e:
                            held.append(e)
                else:
                    for ch in a.iterchunks(1, accessmode=fx['inner']):
                        break
            except Exception as e:
                held.append(e)
            a[0:1]
        if fds():
            probs.append(f'still open after all contexts were left: {fds()}')
        a[s0:s1]
        if fds():
            probs.append(f'still open after a later read: {fds()}')
    if probs:
        return {'reproduced': True, 'detail': '; '.join(probs[:3])}
    return {'reproduced': False, 'detail': 'nothing stays open'}


def replay_nested(cex, d):
    return rp.forked(_replay_nested, cex, d)


def h_empty(valid: bool, vok: bool, k: int, probe: int, atom=(), ctx=False, _gate=None, _small=False):
    """indexing an array WITHOUT elements: NumPy semantics on the empty reference array"""
    assume(0 <= k <= BIG)
    w = new_world()
    put_array(D, w, '/w/a', 0, 'int16', 'little', atom)
    a = D.array.Array('/w/a', accessmode='r+')

    def body():
        try:
            a[np.OpaqueIndex('i', valid)] = np.OpaqueValue('v', vok)
            err = None
        except Exception as e:
            err = e
        if valid and vok:
            if err is not None:
                raise Violation(f'a valid assignment into an empty array raised {type(err).__name__}')
        elif err is None:
            raise Violation('an invalid assignment into an empty array did not raise')
        try:
            v = a[np.OpaqueIndex('j', valid)]
            err = None
        except Exception as e:
            err = e
        if valid and err is not None:
            raise Violation(f'a valid read of an empty array raised {type(err).__name__}')
        if not valid and not isinstance(err, IndexError):
            raise Violation('an invalid read of an empty array did not raise IndexError')
    if ctx:
        with a.open_array():
            body()
    else:
        body()
    no_open_handles(w, 'after indexing an empty array')
    if len(D.array.Array('/w/a')) != 0 or w.lookup('/w/a/arrayvalues.bin').size() != 0:
        raise Violation('indexing an empty array changed it')
    a.append(np.ndarray(dt_of('int16', 'little'), (k,) + atom, Seq.of(('in', 1), k)))
    reach('end')


def replay_access(cex, d):
    """runs in a forked child: a dangling view would kill the interpreter"""
    return rp.forked(_replay_access, cex, d)


def _replay_access(cex, d):
    """Real darr vs real NumPy; opaque tokens are instantiated with concrete index expressions."""
    import os
    import warnings
    warnings.simplefilter('ignore')
    darr, np_ = rp.real()
    fx = dict(d.get('fixed') or {})
    fx.update(cex)
    if (d.get('ob') or d.get('obligation')) == 'IDX-empty':
        atom = tuple(fx.get('atom', ()))
        probs = []
        with rp.scratch() as tmp:
            a = darr.create_array(tmp + '/a', shape=(0,) + atom, dtype='int16')
            ref = np_.zeros((0,) + atom, dtype='int16')
            for idx in ([slice(None), Ellipsis, slice(0, 0)] if fx['valid'] else [3]):
                for val in ([1] if fx['vok'] else [np_.zeros((5,) + atom + (2,))]):
                    def both(f):
                        try:
                            f(ref)
                            r = None
                        except Exception as e:
                            r = type(e)
                        try:
                            if fx.get('ctx'):
                                with a.open_array():
                                    f(a)
                            else:
                                f(a)
                            g = None
                        except Exception as e:
                            g = type(e)
                        if (r is None) != (g is None):
                            probs.append(f'index {idx!r}: numpy {r}, darr {g}')
                    both(lambda x: x.__setitem__(idx, val))
                    both(lambda x: x.__getitem__(idx))
        if probs:
            return {'reproduced': True, 'detail': '; '.join(probs[:3])}
        return {'reproduced': False, 'detail': 'agrees with numpy on empty arrays'}
    n = int(fx['n'])
    if n > 5000:
        return {'reproduced': False, 'skip': True, 'detail': 'too large'}
    atom = tuple(fx.get('atom', ()))
    numtype, bo = fx['numtype'], fx['bo']
    probs = []
    with rp.scratch() as tmp:
        p = tmp + '/a'
        orig = rp.values(np_, n, atom, numtype, bo)
        a = darr.asarray(p, orig, accessmode='r+')
        ref = orig.copy()
        results = []
        valids = [bool(fx['valid1']), bool(fx['valid2'])]
        s0, s1 = int(fx['s0']), int(fx['s1'])
        vok = bool(fx['vok'])
        val = 3 if vok else np_.zeros((n + 2,) + atom + (3,))

        held = []

        def fds():
            rp_ = os.path.realpath(p)
            return [x for x in os.listdir('/proc/self/fd')
                    if os.path.realpath(f'/proc/self/fd/{x}').startswith(rp_)] + \
                   ['map:' + ln.split()[0] for ln in open('/proc/self/maps') if rp_ in ln]

        def one(i, kind):
            valid = valids[i]
            if kind.endswith('opaque'):
                idx = (slice(None, None, 2) if i == 0 else [0, -1]) if valid else n + 3
            elif kind == 'read-int':
                idx = s0
            elif kind in ('read-ell', 'read-ell-lead', 'write-ell'):
                idx = (s0, Ellipsis) if (kind == 'read-ell' or atom) else (Ellipsis, s0)
            else:
                idx = slice(s0, s1)
            if kind.startswith('read'):
                try:
                    want, werr = ref[idx], None
                except Exception as e:
                    want, werr = None, type(e)
                try:
                    got, gerr = a[idx], None
                except Exception as e:
                    got, gerr = None, type(e)
                    held.append(e)
                if werr is not gerr and (werr is None or gerr is None or not issubclass(gerr, werr)):
                    probs.append(f'{kind} a[{idx!r}]: numpy {werr}, darr {gerr}')
                elif werr is None:
                    if not rp.same(np_, np_.asarray(got), np_.asarray(want)):
                        probs.append(f'{kind} a[{idx!r}] differs from numpy')
                    if isinstance(got, np_.memmap) or (getattr(got, 'base', None) is not None and isinstance(got.base, np_.memmap)):
                        probs.append(f'{kind}: result is (a view of) a memmap')
                    results.append((got, np_.array(want, copy=True)))
            else:
                try:
                    tmpref = ref.copy()
                    tmpref[idx] = val
                    werr = None
                except Exception as e:
                    werr = type(e)
                try:
                    a[idx] = val
                    gerr = None
                except Exception as e:
                    gerr = type(e)
                    held.append(e)
                if (werr is None) != (gerr is None):
                    probs.append(f'{kind} a[{idx!r}]=..: numpy {werr}, darr {gerr}')
                elif werr is None:
                    ref[...] = tmpref
        if fx['ctx']:
            with a.open_array():
                one(0, fx['acc'][0])
                one(1, fx['acc'][1])
        else:
            one(0, fx['acc'][0])
            if fds():
                probs.append('descriptor open after first access')
            one(1, fx['acc'][1])
        if fds():
            probs.append(f'descriptors still open: {fds()}')
        for nm, h in (('live', a), ('fresh', darr.Array(p))):
            if not rp.same(np_, h[:], ref):
                probs.append(f'{nm} does not show the assignment')
        raw = np_.fromfile(p + '/arrayvalues.bin', dtype=ref.dtype).reshape(ref.shape)
        if not rp.same(np_, raw, ref):
            probs.append('raw file differs')
        a.append(rp.values(np_, int(min(fx['k'], 100)), atom, numtype, bo, 77))
        a[0:1] = 9
        for got, want in results:
            if not rp.same(np_, np_.array(got, copy=True), want):       # touching a dangling view crashes here
                probs.append('earlier result changed')
    if probs:
        return {'reproduced': True, 'detail': '; '.join(probs[:4])}
    return {'reproduced': False, 'detail': 'real darr agrees with numpy'}


def obligations(tier):
    thorough = tier == 'thorough'
    T = 900 if thorough else 300
    kinds = ['read-opaque', 'read-slice', 'read-int', 'write-opaque', 'write-slice']
    pairs = [(a, b) for a in kinds for b in kinds if (a, b) != ('write-slice', 'write-slice')]
    if not thorough:
        pairs = [p for i, p in enumerate(pairs) if i % 2 == 0]
    splits = []
    for i, (a, b) in enumerate(pairs):
        for at in ([(), (2,), (2, 3)] if thorough else [()] if i % 2 else [(2,)]):
            for ctx in (False, True):
                splits.append(dict(acc=(a, b), atom=at, numtype='float32' if i % 2 else 'int16',
                                   bo='big' if i % 3 else 'little', ctx=ctx, _must=('end',)))
    for (a, b), at in [(('read-ell', 'write-ell'), ()), (('read-ell-lead', 'read-int'), ()), (('write-ell', 'read-ell'), (2,)),
                       (('read-ell', 'read-slice'), (2,))]:
        for ctx in (False, True):
            splits.append(dict(acc=(a, b), atom=at, numtype='int16', bo='little', ctx=ctx, _must=('end',)))
    empties = [dict(atom=at, ctx=c) for at in [(), (2,)] for c in (False, True)]
    nested = [dict(outer=o, inner=i, via=v, atom=at) for (o, i) in (('r', 'r+'), ('r+', 'r'), ('r', 'r'))
              for v in ('context', 'iterchunks') for at in ((), (2,))]
    return [Ob('NESTED-mode', 'h_nested', splits=nested, timeout=T, replay='replay_nested', sym='n, vok, s0, s1, probe',
               bounds='an r+ handle; outer open_array(accessmode) with an inner context or chunk iterator that asks for '
                      'another (or the same) mode, an assignment inside; whether the inner request is honoured, ignored or '
                      'refused, nothing is open once the contexts are left; exception objects are kept by the caller'),
            Ob('IDX-empty', 'h_empty', splits=empties, timeout=T, replay='replay_access', sym='valid, vok, k, probe',
               bounds='arrays without elements (1-D and 2-D), opaque index / value tokens, inside and outside a default-mode context'),
            Ob('IDX', 'h_access', splits=splits, timeout=T, replay='replay_access',
               sym='n, valid1, valid2, vok, s0, s1, k, ctx, probe',
               bounds='n>=1 unbounded; sequences of 2 accesses from {read/write with an opaque index token of symbolic '
                      'validity, read/write with first-axis slice s0:s1 (any ints), read with int s0 (any int), read/write with a tuple '
                      '(s0, ...) / (..., s0) whose Ellipsis stands for no axis or the trailing ones}, inside or '
                      'outside one open_array() context (symbolic), followed by an append and an assignment; '
                      'outside: NumPy\'s own evaluation of index expressions (N-index); two consecutive symbolic slice '
                      'assignments (nested clamp terms make z3 queries take seconds each; measured 51 paths in 300 s)')]


def conformance(tier):
    from ..conformance import scenarios
    return scenarios.run(['array_assign', 'array_basic'])
