"""Shared harness support: pre-state construction in the model FS, the independent
decoders (share no code with Darr; follow docs/design.rst), snapshot comparison."""
from ..engine import Violation, assume, reach, ModelGap
from ..env import symfs, symnp, holes
from ..env.seq import Seq, Seg, seq_equal, same_at
from ..env.symfs import World, File, Dir, Symlink, JsonDoc, ReadmeToken, TORN
from .. import loader

NUMTYPES = ['int8', 'int16', 'int32', 'int64', 'uint8', 'uint16', 'uint32', 'uint64',
            'float16', 'float32', 'float64', 'complex64', 'complex128']
INDEXTYPES = ['int8', 'uint8', 'int16', 'uint16', 'int32', 'uint32', 'int64']
ITEMSIZE = {k: symnp._TYPES[k][1] for k in NUMTYPES}
BIG = 2 ** 62


def new_world():
    holes.reset()
    return symfs.install(World('/w'))


def label(bo):
    return {'<': 'little', '>': 'big', '|': 'little' if symnp.NATIVE == '<' else 'big'}[bo]


def gt_of(numtype, bolabel):
    if ITEMSIZE[numtype] == 1:
        return '|'
    return '<' if bolabel == 'little' else '>'


def darrversion(D):
    return D.array.Array._formatversion


def array_descr(D, numtype, bolabel, shape):
    return {'arrayorder': 'C', 'byteorder': bolabel, 'darrobject': 'Array',
            'darrversion': darrversion(D), 'numtype': numtype, 'shape': list(shape)}


def put_array(D, w, path, n, numtype='float64', bolabel='little', atom=(), src=('orig',),
              metadata=None, rows=None):
    """A well-formed Array directory with n first-axis rows of source `src`."""
    dt = symnp.SymDType(numtype, gt_of(numtype, bolabel))
    d = w.mkdirs(path)
    if rows is None:
        rows = Seq.of(src, n)
    f = File()
    f.bin = symfs.encode_rows(rows, dt, atom)
    f.text = None
    d.entries['arrayvalues.bin'] = f
    j = File()
    j.text = JsonDoc(array_descr(D, numtype, bolabel, (n,) + tuple(atom)))
    j.bin = None
    d.entries['arraydescription.json'] = j
    r = File()
    r.text = ReadmeToken(('array', numtype, bolabel, (n,) + tuple(atom), bool(metadata)))
    r.bin = None
    d.entries['README.txt'] = r
    if metadata:
        m = File()
        m.text = JsonDoc(symfs._jcopy(metadata))
        m.bin = None
        d.entries['metadata.json'] = m
    return f


def complete_stub(stub, donor_factory):
    """Harnesses build handles with symbolic cached extents through object.__new__ (the real __init__ would
    read them from a concrete descriptor).  A changed /repo may cache more in __init__ than the pinned tree
    does; whatever instance attribute the stub lacks is taken from a donor handle of the same class that
    went through the real __init__ on a small concrete array in the same world."""
    try:
        donor = donor_factory()
    except Exception:
        return stub
    for k, v in donor.__dict__.items():
        if k not in stub.__dict__:
            stub.__dict__[k] = v
    return stub


class DecodeError(Exception):
    pass


def _jsonfile(node, what):
    if node is None or not isinstance(node, File):
        raise DecodeError(f'{what} missing')
    t = node.text
    if not isinstance(t, JsonDoc):
        raise DecodeError(f'{what} is not a JSON document')
    return t.obj


def decode_array(w, path):
    """Independent reader of the documented format. Returns (numtype, bolabel, shape, rows,
    dtype) or raises DecodeError naming what is ill-formed."""
    d = w.lookup(path)
    if not isinstance(d, Dir):
        raise DecodeError('array directory missing')
    js = _jsonfile(d.entries.get('arraydescription.json'), 'arraydescription.json')
    if not isinstance(js, dict):
        raise DecodeError('descriptor is not a dictionary')
    for k in ('numtype', 'byteorder', 'shape', 'arrayorder', 'darrversion', 'darrobject'):
        if k not in js:
            raise DecodeError(f'descriptor lacks {k}')
    if js['numtype'] not in NUMTYPES:
        raise DecodeError('unknown numtype')
    if js['byteorder'] not in ('little', 'big'):
        raise DecodeError('unknown byteorder')
    if js['arrayorder'] not in ('C', 'F'):
        raise DecodeError("arrayorder is neither 'C' nor 'F'")
    shape = js['shape']
    if not isinstance(shape, list) or len(shape) < 1:
        raise DecodeError('shape is not a list')
    for x in shape:
        if isinstance(x, bool) or not isinstance(x, int) or x < 0:
            raise DecodeError('shape entry is not a non-negative int')
    data = d.entries.get('arrayvalues.bin')
    if not isinstance(data, File):
        raise DecodeError('arrayvalues.bin missing')
    if 'README.txt' not in d.entries:
        raise DecodeError('README.txt missing')
    dt = symnp.SymDType(js['numtype'], gt_of(js['numtype'], js['byteorder']))
    atom = tuple(shape[1:])
    expected = symnp._prod(shape) * dt.itemsize
    if data.size() != expected:
        raise DecodeError('data length != prod(shape)*itemsize')
    # a reader following the description reads column-major when it says 'F' (same thing for 1-D)
    rows = data.decode(dt, atom, shape[0], 'F' if (js['arrayorder'] == 'F' and len(shape) > 1) else 'C')
    return js['numtype'], js['byteorder'], tuple(shape), rows, dt


def rows_have_garbage(rows):
    for s in rows.segs:
        if s.src[0] in ('garbage', 'forder'):
            if s.hi - s.lo > 0:
                return True
    return False


def check_handle(a, numtype, gt, shape, what='handle'):
    """API-visible state of a Darr Array handle equals (numtype, byte order, shape)."""
    if a.dtype.name != numtype:
        raise Violation(f'{what}: dtype {a.dtype.name} != {numtype}')
    if a.dtype.gt != gt:
        raise Violation(f'{what}: byte order of dtype {a.dtype.gt} != {gt}')
    if len(a.shape) != len(shape):
        raise Violation(f'{what}: rank differs')
    for x, y in zip(a.shape, shape):
        if x != y:
            raise Violation(f'{what}: shape differs', got=a.shape, want=shape)
    if len(a) != shape[0]:
        raise Violation(f'{what}: len differs')
    sz = symnp._prod(shape)
    if a.size != sz:
        raise Violation(f'{what}: size differs')
    if a.nbytes != sz * ITEMSIZE[numtype]:
        raise Violation(f'{what}: nbytes differs')


def check_content(rows, ref, probe, what):
    if not seq_equal(rows, ref, probe):
        raise Violation(f'{what}: content differs from reference', got=repr(rows),
                        want=repr(ref))


def read_all(a):
    """a[:] through the Darr API -> Seq of rows (detached)."""
    v = a[:]
    return v._rows()


# ---- snapshots ("byte-identical") -------------------------------------------------------------
def snap(node):
    if isinstance(node, Dir):
        return ('dir', {k: snap(v) for k, v in node.entries.items()})
    if isinstance(node, Symlink):
        return ('symlink', node.target)
    if node.bin is not None:
        return ('bin', node.bin)
    return ('text', node.text)


def _text_same(a, b):
    if isinstance(a, JsonDoc) and isinstance(b, JsonDoc):
        return a.obj == b.obj
    if isinstance(a, ReadmeToken) and isinstance(b, ReadmeToken):
        return a.key == b.key
    if a is TORN or b is TORN:
        return a is b
    if type(a) is not type(b):
        return False
    return a == b


def snap_same(a, b, probe):
    """Structural equality of two snapshots; binary content compared with the probe."""
    if a[0] != b[0]:
        return False
    if a[0] == 'dir':
        if set(a[1].keys()) != set(b[1].keys()):
            return False
        for k in a[1]:
            if not snap_same(a[1][k], b[1][k], probe):
                return False
        return True
    if a[0] == 'symlink':
        return a[1] == b[1]
    if a[0] == 'bin':
        return seq_equal(a[1], b[1], probe)
    return _text_same(a[1], b[1])


def no_open_handles(w, what):
    if w.open_handles() != 0:
        raise Violation(f'{what}: a file object or memory map of the array is still open')


# ---- known-finding regions and small-scope counterexamples ---------------------------------------
def gate(_gate, flags):
    """_gate = ('exclude', [regions]) | ('only', [region]); flags: region -> bool on this path."""
    if not _gate:
        return
    mode, names = _gate
    if mode == 'exclude':
        for r in names:
            if flags.get(r, False):
                assume(False)
    else:
        assume(flags.get(names[0], False))


SMALL = 24


def small(_small, *vals):
    """When the runner asks for a replayable counterexample keep all sizes small."""
    if _small:
        for v in vals:
            assume(-SMALL <= v <= SMALL)


# ---- ragged arrays --------------------------------------------------------------------------------
RBIG = 2 ** 60


def ragged_descr(D, K, N, atom, numtype):
    return {'atom': list(atom), 'darrobject': 'RaggedArray', 'darrversion': darrversion(D),
            'len': K, 'numtype': numtype, 'size': N * symnp._prod(atom)}


def put_ragged(D, w, path, lens, numtype='float64', bolabel='little', atom=(),
               indextype='int64', metadata=None, vsrc=('vorig',)):
    """A well-formed RaggedArray directory with len(lens) subarrays of (symbolic) lengths."""
    bounds = []
    pos = 0
    for l in lens:
        bounds.append((pos, pos + l))
        pos = pos + l
    N = pos
    K = len(lens)
    top = w.mkdirs(path)
    put_array(D, w, path + '/values', N, numtype, bolabel, atom, src=vsrc)
    irows = Seq(Seg(('lit', b), 0, 1) for b in bounds)
    put_array(D, w, path + '/indices', K, indextype, 'little', (2,), rows=irows)
    j = File()
    j.text = JsonDoc(ragged_descr(D, K, N, atom, numtype))
    j.bin = None
    top.entries['arraydescription.json'] = j
    r = File()
    r.text = ReadmeToken(('ragged', K, tuple(atom), numtype))
    r.bin = None
    top.entries['README.txt'] = r
    if metadata:
        m = File()
        m.text = JsonDoc(symfs._jcopy(metadata))
        m.bin = None
        top.entries['metadata.json'] = m
    model = [Seq((Seg(vsrc, s, e),)) for (s, e) in bounds]
    return model, N


def literal_rows(rows):
    """the literal (start, end) pairs of an index array content; DecodeError otherwise."""
    out = []
    for s in rows.segs:
        n = s.hi - s.lo
        if n == 0:
            continue
        if s.src[0] != 'lit' or n != 1:
            raise DecodeError('index rows are not readable integers')
        v = s.src[1]
        if not isinstance(v, tuple) or len(v) != 2:
            raise DecodeError('index row is not a pair')
        out.append(v)
    return out


def decode_ragged(w, path):
    """Independent reader of a ragged array directory (docs/design.rst). Returns
    (numtype, atom, [(start, end)...], values rows Seq, index numtype)."""
    d = w.lookup(path)
    if not isinstance(d, Dir):
        raise DecodeError('ragged directory missing')
    js = _jsonfile(d.entries.get('arraydescription.json'), 'ragged arraydescription.json')
    if not isinstance(js, dict):
        raise DecodeError('ragged descriptor is not a dictionary')
    for k in ('len', 'size', 'atom', 'numtype', 'darrversion', 'darrobject'):
        if k not in js:
            raise DecodeError(f'ragged descriptor lacks {k}')
    if js['darrobject'] != 'RaggedArray':
        raise DecodeError('darrobject is not RaggedArray')
    if 'README.txt' not in d.entries:
        raise DecodeError('ragged README.txt missing')
    vnt, vbo, vshape, vrows, vdt = decode_array(w, path + '/values')
    int_, ibo, ishape, irows, idt = decode_array(w, path + '/indices')
    if int_ not in INDEXTYPES and int_ not in ('uint64',):
        raise DecodeError('indices are not of an integer type')
    if len(ishape) != 2 or ishape[1] != 2:
        raise DecodeError('indices shape is not (n, 2)')
    if rows_have_garbage(irows) or rows_have_garbage(vrows):
        raise DecodeError('sub-array bytes do not decode under their descriptor')
    pairs = literal_rows(irows)
    if len(pairs) != ishape[0]:
        raise DecodeError('index rows count differs from indices shape')
    N = vshape[0]
    prev = 0
    for (s, e) in pairs:
        if s != prev:
            raise DecodeError('index start does not equal previous end (or first start != 0)')
        if s > e:
            raise DecodeError('index start > end')
        prev = e
    if prev != N:
        raise DecodeError('last index end != number of value rows')
    atom = tuple(vshape[1:])
    if js['len'] != ishape[0]:
        raise DecodeError('top-level len != number of index rows')
    if js['size'] != N * symnp._prod(atom):
        raise DecodeError('top-level size != number of stored values')
    if list(js['atom']) != list(atom):
        raise DecodeError('top-level atom != values atom')
    if js['numtype'] != vnt:
        raise DecodeError('top-level numtype != values numtype')
    return vnt, atom, pairs, vrows, int_
