"""C04 - RaggedArray histories equal a list-of-arrays model and persist.
C05 re-uses these harnesses with mode='disk' (independent decoder)."""
from ..runner import Ob
from .common import *
from .. import replay as rp
from .c03 import mk_input, dt_of, ASSUMPTIONS

PROPERTY = 'C04'
D = loader.load(env=True, stub_readme=True)
np = symnp
RA = D.raggedarray


def lens_of(K, l1, l2, l3):
    ls = [l1, l2, l3]
    for l in ls[:K]:
        assume(0 <= l <= RBIG)
    for l in ls[K:]:
        assume(l == 0)
    return ls[:K]


def check_handle_ragged(h, model, numtype, gt, atom, q, probe, what):
    K = len(model)
    N = 0
    for m in model:
        N = N + m.length()
    if len(h) != K or h.narrays != K:
        raise Violation(f'{what}: len/narrays != number of subarrays', got=len(h), want=K)
    if tuple(h.atom) != tuple(atom):
        raise Violation(f'{what}: atom differs')
    if h.dtype.name != numtype or h.dtype.gt != gt:
        raise Violation(f'{what}: dtype differs', got=repr(h.dtype))
    if h.size != N * symnp._prod(atom):
        raise Violation(f'{what}: size differs')
    if -K <= q < K:
        try:
            got = h[q]
        except Exception as e:
            raise Violation(f'{what}: ra[k] raised {type(e).__name__} for a valid k',
                            msg=holes.symstr(e))
        qq = q + K if q < 0 else q
        exp = None
        for i in range(K):
            if qq == i:
                exp = model[i]
        if got.dtype.name != numtype or got.dtype.gt != gt:
            raise Violation(f'{what}: subarray dtype differs')
        if got.shape[0] != exp.length() or tuple(got.shape[1:]) != tuple(atom):
            raise Violation(f'{what}: subarray shape differs')
        if not seq_equal(got._rows(), exp, probe):
            raise Violation(f'{what}: subarray contents differ from the model',
                            got=repr(got._rows()), want=repr(exp))
    else:
        try:
            h[q]
            raise Violation(f'{what}: out-of-range subarray index did not raise')
        except IndexError:
            pass
        except Violation:
            raise
        except Exception as e:
            raise Violation(f'{what}: out-of-range index raised {type(e).__name__}, not IndexError')


def check_disk_ragged(w, model, numtype, atom, probe, what, indextype=None):
    try:
        vnt, datom, pairs, vrows, int_ = decode_ragged(w, '/w/r')
    except DecodeError as e:
        raise Violation(f'{what}: ragged directory ill-formed on disk: {e}')
    if vnt != numtype or tuple(datom) != tuple(atom):
        raise Violation(f'{what}: on-disk numtype/atom differ')
    if indextype is not None and int_ != indextype:
        raise Violation(f'{what}: stored index type {int_} is not the requested {indextype}')
    if len(pairs) != len(model):
        raise Violation(f'{what}: on-disk subarray count differs')
    for (s, e), m in zip(pairs, model):
        if e - s != m.length():
            raise Violation(f'{what}: on-disk subarray length differs')
        if not seq_equal(vrows.cut(s, e), m, probe):
            raise Violation(f'{what}: on-disk subarray contents differ')


def check_ragged(w, ra, model, numtype, bo, atom, q, probe, what, mode, indextype=None):
    gt = gt_of(numtype, bo)
    if mode in ('api', 'both'):
        check_handle_ragged(ra, model, numtype, gt, atom, q, probe, what + ' live')
        try:
            fresh = RA.RaggedArray('/w/r')
        except Exception as e:
            raise Violation(f'{what}: ragged array no longer opens: {type(e).__name__}',
                            msg=holes.symstr(e))
        check_handle_ragged(fresh, model, numtype, gt, atom, q, probe, what + ' fresh')
        if indextype is not None:
            if fresh._indices.dtype.name != indextype:
                raise Violation(f'{what}: index type stored is {fresh._indices.dtype.name}, '
                                f'requested {indextype}')
        no_open_handles(w, what)
    if mode in ('disk', 'both'):
        check_disk_ragged(w, model, numtype, atom, probe, what, indextype)


def open_ragged(w, lens, numtype, bo, atom, indextype='int64'):
    model, N = put_ragged(D, w, '/w/r', lens, numtype, bo, atom, indextype)
    ra = RA.RaggedArray('/w/r', accessmode='r+')
    return ra, model


# ---- harnesses --------------------------------------------------------------------------------------
def h_append(l1: int, l2: int, l3: int, k1: int, k2: int, m: int, q: int, probe: int,
             K=2, F=1, numtype='float64', bo='little', atom=(), indextype='int64',
             forms=('same', 'cast'), via='append', mode='both', _gate=None, _small=False):
    lens = lens_of(K, l1, l2, l3)
    ks = [k1, k2][:F]
    for k in ks:
        assume(0 <= k <= RBIG)
    for k in [k1, k2][F:]:
        assume(k == 0)
    assume(0 <= m <= F)
    if via == 'append':
        assume(m == 1)
    small(_small, *(lens + ks))
    gate(_gate, {})
    w = new_world()
    ra, model = open_ragged(w, lens, numtype, bo, atom, indextype)
    items = []
    for i in range(F):
        if i < m:
            obj, r = mk_input(forms[i % len(forms)], ks[i], atom, numtype, bo, i + 1)
            items.append(obj)
            model = model + [r]
    hi = symnp.INT_RANGE[indextype][1]
    total = 0
    for l in lens:
        total = total + l
    assume(total <= hi)                      # the pre-state is representable in the index type
    fits = True
    end = total
    for i in range(F):
        if i < m:
            end = end + ks[i]
            if end > hi:
                fits = False
    try:
        if via == 'append':
            ra.append(items[0])
        else:
            ra.iterappend(items)
    except Exception as e:
        if not fits:
            reach('overflow-refused')      # an index that does not fit the index type: refusal is C10's subject
            return
        raise Violation(f'ragged {via} of compatible items raised {type(e).__name__}',
                        msg=holes.symstr(e))
    if not fits:
        raise Violation(f'ragged {via} completed although an index does not fit the index type {indextype}')
    check_ragged(w, ra, model, numtype, bo, atom, q, probe, f'after {via}', mode)
    reach('end')


def h_truncate(l1: int, l2: int, l3: int, index: int, q: int, probe: int,
               k1: int, K=2, numtype='int32', bo='little', atom=(), bypath=False, mode='both',
               thenappend=False, neg=False, _gate=None, _small=False):
    lens = lens_of(K, l1, l2, l3)
    assume(-RBIG <= index <= RBIG and 0 <= k1 <= RBIG)
    assume(index < 0 if neg else index >= 0)
    if not thenappend:
        assume(k1 == 0)
    small(_small, index, k1, *lens)
    w = new_world()
    ra, model = open_ragged(w, lens, numtype, bo, atom)
    if index < 0:
        newlen = K + index if K + index > 0 else 0
    else:
        newlen = index if index < K else K
    legal = 0 <= newlen < K
    removed = 0
    for i in range(K):
        if i >= newlen:
            removed = removed + lens[i]
    gate(_gate, {'truncate_removes_no_values': legal and removed == 0})
    try:
        RA.truncate_raggedarray('/w/r' if bypath else ra, index)
        raised = None
    except Exception as e:
        raised = e
    if legal:
        reach('legal')
        if raised is not None:
            raise Violation(f'legal ragged truncate raised {type(raised).__name__}',
                            msg=holes.symstr(raised))
        nl = 0
        for i in range(K):
            if newlen == i:
                nl = i
        model = model[:nl]
        if bypath:
            ra = RA.RaggedArray('/w/r', 'r+')
        check_ragged(w, ra, model, numtype, bo, atom, q, probe, 'after truncate', mode)
        if thenappend:
            obj, r = mk_input('same', k1, atom, numtype, bo, 1)
            try:
                ra.append(obj)
            except Exception as e:
                raise Violation(f'append after truncate raised {type(e).__name__}',
                                msg=holes.symstr(e))
            model = model + [r]
            check_ragged(w, ra, model, numtype, bo, atom, q, probe, 'append after truncate', mode)
            reach('appended')
    else:
        reach('illegal')
        if raised is None:
            raise Violation('ragged truncate that does not shorten did not raise')
        check_ragged(w, ra, model, numtype, bo, atom, q, probe, 'after rejected truncate', mode)
    reach('end')


def h_getitem_bad(l1: int, l2: int, l3: int, K=2, kind='float', _gate=None, _small=False):
    lens = lens_of(K, l1, l2, l3)
    w = new_world()
    ra, model = open_ragged(w, lens, 'float64', 'little', ())
    idx = {'float': 1.0, 'str': '0', 'none': None, 'slice': slice(0, 1), 'tuple': (0,)}[kind]
    try:
        ra[idx]
        raise Violation(f'non-integer subarray index ({kind}) accepted')
    except TypeError:
        pass
    except Violation:
        raise
    except Exception as e:
        raise Violation(f'non-integer index raised {type(e).__name__}, not TypeError')
    no_open_handles(w, 'after bad index')
    reach('end')


def h_iter(l1: int, l2: int, l3: int, start: int, end: int, step: int, useend: bool,
           probe: int, K=2, atom=(), _gate=None, _small=False):
    lens = lens_of(K, l1, l2, l3)
    assume(-K - 1 <= start <= K + 1 and -K - 1 <= end <= K + 1 and -3 <= step <= 3)
    small(_small, *lens)
    w = new_world()
    ra, model = open_ragged(w, lens, 'int16', 'big', atom)
    e = end if useend else None
    ee = end if useend else K
    expected = None
    experr = None
    try:
        expected = [model[i] for i in range(start, ee, step)]
    except (IndexError, ValueError) as x:
        experr = type(x)
    try:
        got = list(ra.iter_arrays(startindex=start, endindex=e, stepsize=step))
        goterr = None
    except Exception as x:
        got = None
        goterr = type(x)
    if experr is not None:
        if goterr is None:
            raise Violation('iter_arrays succeeded where the list model raises', want=experr.__name__)
        if goterr is not experr:
            raise Violation('iter_arrays raised a different error class than the list model',
                            got=goterr.__name__, want=experr.__name__)
        reach('error')
    else:
        if goterr is not None:
            raise Violation(f'iter_arrays raised {goterr.__name__} where the list model succeeds')
        if len(got) != len(expected):
            raise Violation('iter_arrays yielded a different number of subarrays')
        for g, x in zip(got, expected):
            if not seq_equal(g._rows(), x, probe):
                raise Violation('iter_arrays yielded different contents')
        reach('ok')
    no_open_handles(w, 'after iter_arrays')
    reach('end')


def h_create(k1: int, k2: int, q: int, probe: int, numtype='float32', atom=(), indextype='int32',
             napp=1, mode='both', _gate=None, _small=False):
    assume(0 <= k1 <= 60 and 0 <= k2 <= 60)     # small: index types down to int8 must not overflow
    w = new_world()
    gate(_gate, {'create_indextype_not_int64': indextype != 'int64'})
    try:
        ra = RA.create_raggedarray('/w/r', atom=atom, dtype=numtype, indextype=indextype,
                                   accessmode='r+')
    except Exception as e:
        raise Violation(f'create_raggedarray raised {type(e).__name__}', msg=holes.symstr(e))
    model = []
    check_ragged(w, ra, model, numtype, 'little', atom, q, probe, 'after create', mode, indextype)
    ks = [k1, k2]
    for i in range(napp):
        obj, r = mk_input('cast', ks[i], atom, numtype, 'little', i + 1)
        ra.append(obj)
        model = model + [r]
        check_ragged(w, ra, model, numtype, 'little', atom, q, probe, f'after append {i}', mode,
                     indextype)
    reach('end')


def h_as(k1: int, k2: int, k3: int, q: int, probe: int, m=2, numtype='int32', atom=(),
         indextype='int64', dtypearg=False, withmeta=False, mode='both', _gate=None, _small=False):
    ks = [k1, k2, k3][:m]
    for k in ks:
        assume(0 <= k <= 50)
    for k in [k1, k2, k3][m:]:
        assume(k == 0)
    assume(k1 + k2 + k3 <= symnp.INT_RANGE[indextype][1])      # every index fits the requested index type
    w = new_world()
    items = []
    model = []
    src_type = 'float64' if numtype != 'float64' else 'int32'
    for i in range(m):
        if dtypearg:
            a = np.ndarray(dt_of(src_type, 'little'), (ks[i],) + atom, Seq.of(('in', i + 1), ks[i]))
            model.append(Seq.of(('cast', numtype, ('in', i + 1)), ks[i]))
        else:
            a = np.ndarray(dt_of(numtype, 'little'), (ks[i],) + atom, Seq.of(('in', i + 1), ks[i]))
            model.append(Seq.of(('in', i + 1), ks[i]))
        items.append(a)
    md = {'a': 1, 'b': [1, 2]} if withmeta else None
    try:
        ra = RA.asraggedarray('/w/r', items, dtype=numtype if dtypearg else None,
                              indextype=indextype, metadata=md, accessmode='r+')
    except Exception as e:
        raise Violation(f'asraggedarray raised {type(e).__name__}', msg=holes.symstr(e))
    check_ragged(w, ra, model, numtype, 'little', atom, q, probe, 'after asraggedarray', mode,
                 indextype)
    if withmeta:
        if loader._mapping_dict(ra.metadata) != {'a': 1, 'b': [1, 2]}:
            raise Violation('metadata given at creation not stored')
    reach('end')


def h_seq(l1: int, l2: int, l3: int, x1: int, x2: int, q: int, probe: int,
          K=1, atom=(), mode='both', o1=0, o2=0, _gate=None, _small=False):
    """two symbolically chosen operations: 0 append x rows, 1 truncate to x, 2 reopen,
    3 mode r (append must fail) then r+"""
    lens = lens_of(K, l1, l2, l3)
    assume(0 <= o1 <= 3 and 0 <= o2 <= 3 and 0 <= x1 <= RBIG and 0 <= x2 <= RBIG)
    small(_small, x1, x2, *lens)
    w = new_world()
    ra, model = open_ragged(w, lens, 'float64', 'big', atom)
    removed_only_empty = False
    flags = {'truncate_removes_no_values': False}
    for step, (o, x) in enumerate([(o1, x1), (o2, x2)]):
        if o == 0:
            obj, r = mk_input('list', x, atom, 'float64', 'big', step + 1)
            ra.append(obj)
            model = model + [r]
        elif o == 1:
            cur = len(model)
            legal = 0 <= x < cur
            if legal:
                rem = 0
                nl = 0
                for i in range(cur):
                    if x == i:
                        nl = i
                for i in range(cur):
                    if i >= nl:
                        rem = rem + model[i].length()
                if rem == 0:
                    flags['truncate_removes_no_values'] = True
                    gate(_gate, flags)
            try:
                RA.truncate_raggedarray(ra, x)
                if not legal:
                    raise Violation('illegal ragged truncate accepted in sequence')
                model = model[:nl]
            except Violation:
                raise
            except Exception as e:
                if legal:
                    raise Violation(f'legal ragged truncate raised {type(e).__name__} in sequence')
        elif o == 2:
            ra = RA.RaggedArray('/w/r', accessmode='r+')
        else:
            ra.accessmode = 'r'
            try:
                ra.append(mk_input('same', 1, atom, 'float64', 'big', 9)[0])
                raise Violation('ragged append in mode r succeeded')
            except Violation:
                raise
            except Exception:
                pass
            ra.accessmode = 'r+'
        check_ragged(w, ra, model, 'float64', 'big', atom, q, probe, f'step {step}', mode)
    gate(_gate, flags)
    reach('end')


# ---- replay -------------------------------------------------------------------------------------------
def _real_items(np_, forms, ks, atom, numtype, bo):
    out = []
    for i, k in enumerate(ks):
        f = forms[i % len(forms)]
        if f == 'same':
            out.append(rp.values(np_, k, atom, numtype, bo, 100 * (i + 1)))
        elif f == 'otherbo':
            out.append(rp.values(np_, k, atom, numtype, 'big' if bo == 'little' else 'little', 100 * (i + 1)))
        elif f == 'forder':
            out.append(np_.asfortranarray(rp.values(np_, k, atom, numtype, bo, 100 * (i + 1))))
        elif f == 'strided':
            out.append(rp.values(np_, 2 * k, atom, numtype, bo, 100 * (i + 1))[::2])
        elif f == 'cast':
            out.append(rp.values(np_, k, atom, 'float64' if numtype != 'float64' else 'int32', 'little', 100 * (i + 1)))
        elif f == 'list':
            out.append(rp.values(np_, k, atom, 'int64', 'little', 100 * (i + 1)).tolist())
    return out


def _compare_ragged(darr, np_, path, ra, model, dt, atom, problems, tag, indextype=None):
    import json
    import os
    try:
        fresh = darr.RaggedArray(path)
    except Exception as e:
        problems.append(f'{tag}: RaggedArray(path) raised {type(e).__name__}: {e}')
        return
    for nm, h in (('live', ra), ('fresh', fresh)):
        if len(h) != len(model) or h.narrays != len(model):
            problems.append(f'{tag}: {nm} len {len(h)} != {len(model)}')
            continue
        if h.size != sum(m.size for m in model):
            problems.append(f'{tag}: {nm} size {h.size} differs')
        for k in range(-len(model), len(model)):
            try:
                got = h[k]
            except Exception as e:
                problems.append(f'{tag}: {nm}[{k}] raised {type(e).__name__}')
                break
            want = model[k]
            if not (got.shape == want.shape and got.dtype == want.dtype and got.tobytes() == want.tobytes()):
                problems.append(f'{tag}: {nm}[{k}] differs (shape {got.shape} vs {want.shape}, dtype {got.dtype} vs {want.dtype})')
                break
        for bad in (len(model), -len(model) - 1):
            try:
                h[bad]
                problems.append(f'{tag}: {nm}[{bad}] did not raise')
            except IndexError:
                pass
            except Exception as e:
                problems.append(f'{tag}: {nm}[{bad}] raised {type(e).__name__}')
    # independent on-disk decoding
    try:
        vd = json.load(open(path + '/values/arraydescription.json'))
        idd = json.load(open(path + '/indices/arraydescription.json'))
        top = json.load(open(path + '/arraydescription.json'))
        vdt = np_.dtype(vd['numtype']).newbyteorder('<' if vd['byteorder'] == 'little' else '>')
        idt = np_.dtype(idd['numtype']).newbyteorder('<' if idd['byteorder'] == 'little' else '>')
        v = np_.fromfile(path + '/values/arrayvalues.bin', dtype=vdt)
        i = np_.fromfile(path + '/indices/arrayvalues.bin', dtype=idt)
        if v.size != int(np_.prod(vd['shape'])) or i.size != int(np_.prod(idd['shape'])):
            problems.append(f'{tag}: sub-array file length != descriptor')
        else:
            v = v.reshape(vd['shape'])
            i = i.reshape(idd['shape'])
            if i.shape != (len(model), 2):
                problems.append(f'{tag}: indices shape {i.shape}')
            else:
                prev = 0
                for k, (s, e) in enumerate(i.tolist()):
                    if s != prev or s > e:
                        problems.append(f'{tag}: index rows not contiguous at {k}')
                        break
                    if v[s:e].tobytes() != model[k].tobytes():
                        problems.append(f'{tag}: on-disk subarray {k} differs')
                        break
                    prev = e
                if prev != v.shape[0]:
                    problems.append(f'{tag}: last end {prev} != number of value rows {v.shape[0]}')
            if top.get('len') != len(model) or top.get('size') != sum(m.size for m in model) \
                    or top.get('darrobject') != 'RaggedArray' or top.get('numtype') != vd['numtype'] \
                    or list(top.get('atom')) != list(vd['shape'][1:]):
                problems.append(f'{tag}: top-level descriptor stale {top}')
            if indextype is not None and idd['numtype'] != indextype:
                problems.append(f"{tag}: stored index type {idd['numtype']} != requested {indextype}")
    except Exception as e:
        problems.append(f'{tag}: on-disk decoding failed {type(e).__name__}: {e}')


def replay_ragged(cex, d):
    import traceback
    darr, np_ = rp.real()
    ob = d.get('ob') or d.get('obligation')
    fx = dict(d.get('fixed') or {})
    fx.update(cex)
    with rp.scratch() as tmp:
        try:
            return _replay(darr, np_, ob, fx, tmp + '/r')
        except Exception:
            return {'reproduced': False, 'detail': 'replay error ' + traceback.format_exc()[-900:]}


def _mk_real_ragged(darr, np_, path, lens, numtype, bo, atom, indextype='int64'):
    dt = np_.dtype(numtype).newbyteorder('<' if bo == 'little' else '>')
    subs = []
    base = 1
    for l in lens:
        subs.append(rp.values(np_, l, atom, numtype, bo, base))
        base += l * max(1, int(np_.prod(atom, dtype=int))) + 3
    if subs:
        ra = darr.asraggedarray(path, subs, dtype=dt, indextype=indextype, accessmode='r+')
    else:
        ra = darr.create_raggedarray(path, atom=atom, dtype=dt, indextype=indextype, accessmode='r+')
    return ra, subs, dt


def _replay(darr, np_, ob, fx, path):
    import warnings
    warnings.simplefilter('ignore')
    K = int(fx.get('K', 0))
    lens = [int(fx.get(f'l{i + 1}', 0)) for i in range(K)]
    if max(lens + [0]) > 3000:
        return {'reproduced': False, 'skip': True, 'detail': 'too large'}
    atom = tuple(fx.get('atom', ()))
    problems = []
    if ob.startswith('R-append') or ob.startswith('R-iterappend'):
        numtype, bo = fx['numtype'], fx['bo']
        ra, model, dt = _mk_real_ragged(darr, np_, path, lens, numtype, bo, atom, fx.get('indextype', 'int64'))
        F = int(fx.get('F', 1))
        m = int(fx['m'])
        ks = [int(fx[f'k{i + 1}']) for i in range(F)][:m]
        items = _real_items(np_, fx['forms'], ks, atom, numtype, bo)
        try:
            if fx.get('via') == 'append':
                ra.append(items[0])
            else:
                ra.iterappend(items)
        except Exception as e:
            return {'reproduced': True, 'detail': f'{fx.get("via")} raised {type(e).__name__}: {e}'}
        model = model + [np_.asarray(x, dtype=dt) for x in items]
        _compare_ragged(darr, np_, path, ra, model, dt, atom, problems, 'after append')
    elif ob.startswith('R-truncate'):
        numtype, bo = fx['numtype'], fx['bo']
        ra, model, dt = _mk_real_ragged(darr, np_, path, lens, numtype, bo, atom)
        index = int(fx['index'])
        newlen = len(list(range(K))[:index])
        legal = 0 <= newlen < K
        try:
            darr.truncate_raggedarray(path if fx.get('bypath') else ra, index)
            raised = None
        except Exception as e:
            raised = e
        if fx.get('bypath'):
            try:
                ra = darr.RaggedArray(path, 'r+')
            except Exception as e:
                return {'reproduced': True, 'detail': f'after truncate_raggedarray(lens={lens}, index={index}) '
                                                      f'(raised {raised!r}) the array no longer opens: {e}'}
        if legal:
            if raised is not None:
                problems.append(f'legal truncate_raggedarray(lens={lens}, index={index}) raised {type(raised).__name__}: {raised}')
            model = model[:newlen]
        elif raised is None:
            problems.append(f'illegal truncate (lens={lens}, index={index}) accepted')
        _compare_ragged(darr, np_, path, ra, model if (not legal or raised is None) else model,
                        dt, atom, problems, 'after truncate')
        if legal and raised is None and fx.get('thenappend'):
            x = rp.values(np_, int(fx['k1']), atom, numtype, bo, 777)
            try:
                ra.append(x)
                model = model + [x]
                _compare_ragged(darr, np_, path, ra, model, dt, atom, problems, 'append after truncate')
            except Exception as e:
                problems.append(f'append after truncate raised {e!r}')
    elif ob.startswith('R-getitem-bad'):
        ra, model, dt = _mk_real_ragged(darr, np_, path, lens, 'float64', 'little', ())
        idx = {'float': 1.0, 'str': '0', 'none': None, 'slice': slice(0, 1), 'tuple': (0,)}[fx['kind']]
        try:
            ra[idx]
            problems.append(f'non-integer index {idx!r} accepted')
        except TypeError:
            pass
        except Exception as e:
            problems.append(f'non-integer index {idx!r} raised {type(e).__name__} instead of TypeError')
    elif ob.startswith('R-iter'):
        ra, model, dt = _mk_real_ragged(darr, np_, path, lens, 'int16', 'big', atom)
        start, end, step = int(fx['start']), int(fx['end']), int(fx['step'])
        e = end if fx['useend'] else None
        ee = end if fx['useend'] else K
        try:
            exp = [model[i] for i in range(start, ee, step)]
            experr = None
        except (IndexError, ValueError) as x:
            exp, experr = None, type(x)
        try:
            got = list(ra.iter_arrays(startindex=start, endindex=e, stepsize=step))
            goterr = None
        except Exception as x:
            got, goterr = None, type(x)
        if experr is not goterr and (experr is None or goterr is None or experr is not goterr):
            problems.append(f'iter_arrays({start},{e},{step}) on {K} subarrays: model {experr}, darr {goterr}')
        elif exp is not None:
            if len(exp) != len(got) or any(a.tobytes() != b.tobytes() or a.shape != b.shape for a, b in zip(exp, got)):
                problems.append(f'iter_arrays({start},{e},{step}) yields different subarrays')
    elif ob.startswith('R-create'):
        numtype = fx['numtype']
        dt = np_.dtype(numtype)
        try:
            ra = darr.create_raggedarray(path, atom=atom, dtype=numtype, indextype=fx['indextype'], accessmode='r+')
        except Exception as e:
            return {'reproduced': True, 'detail': f'create_raggedarray raised {e!r}'}
        model = []
        _compare_ragged(darr, np_, path, ra, model, dt, atom, problems, 'after create', fx['indextype'])
        for i in range(int(fx.get('napp', 1))):
            x = rp.values(np_, int(fx[f'k{i + 1}']), atom, 'float64' if numtype != 'float64' else 'int32', 'little', 50 * (i + 1))
            ra.append(x)
            model = model + [x.astype(dt)]
            _compare_ragged(darr, np_, path, ra, model, dt, atom, problems, f'after append {i}', fx['indextype'])
    elif ob.startswith('R-as'):
        numtype = fx['numtype']
        m = int(fx['m'])
        ks = [int(fx[f'k{i + 1}']) for i in range(m)]
        src = ('float64' if numtype != 'float64' else 'int32') if fx.get('dtypearg') else numtype
        items = [rp.values(np_, k, atom, src, 'little', 30 * (i + 1)) for i, k in enumerate(ks)]
        dt = np_.dtype(numtype)
        md = {'a': 1, 'b': [1, 2]} if fx.get('withmeta') else None
        try:
            ra = darr.asraggedarray(path, items, dtype=numtype if fx.get('dtypearg') else None,
                                    indextype=fx['indextype'], metadata=md, accessmode='r+')
        except Exception as e:
            return {'reproduced': True, 'detail': f'asraggedarray raised {e!r}'}
        _compare_ragged(darr, np_, path, ra, [x.astype(dt) for x in items], dt, atom, problems, 'after asraggedarray', fx['indextype'])
    elif ob.startswith('R-SEQ'):
        ra, model, dt = _mk_real_ragged(darr, np_, path, lens, 'float64', 'big', atom)
        for step in range(2):
            o, x = int(fx[f'o{step + 1}']), int(fx[f'x{step + 1}'])
            if x > 3000:
                return {'reproduced': False, 'skip': True, 'detail': 'too large'}
            if o == 0:
                it = rp.values(np_, x, atom, 'int64', 'little', 100 * (step + 1)).tolist()
                ra.append(it)
                model = model + [np_.asarray(it, dtype=dt).reshape((x,) + atom)]
            elif o == 1:
                legal = 0 <= x < len(model)
                try:
                    darr.truncate_raggedarray(ra, x)
                    if not legal:
                        problems.append('illegal truncate accepted')
                    model = model[:x]
                except Exception as e:
                    if legal:
                        problems.append(f'step {step}: legal truncate to {x} of {len(model)} subarrays raised {type(e).__name__}: {e}')
                        break
            elif o == 2:
                ra = darr.RaggedArray(path, accessmode='r+')
            else:
                ra.accessmode = 'r'
                try:
                    ra.append(rp.values(np_, 1, atom, 'float64', 'big', 5))
                    problems.append('append in mode r succeeded')
                except Exception:
                    pass
                ra.accessmode = 'r+'
            _compare_ragged(darr, np_, path, ra, model, dt, atom, problems, f'step {step}')
    if problems:
        return {'reproduced': True, 'detail': '; '.join(problems[:4])}
    return {'reproduced': False, 'detail': 'real darr agrees with the list-of-arrays model'}


# ---- obligations ----------------------------------------------------------------------------------------
def obligations(tier, mode='api', prop='C04'):
    thorough = tier == 'thorough'
    Kmax = 3 if thorough else 2
    T = 900 if thorough else 200
    obs = []
    cfg = [('float64', 'little', ()), ('int32', 'big', (2,))]
    if thorough:
        cfg += [('uint8', 'little', (1,)), ('complex64', 'big', (2, 3)), ('float16', 'little', ())]
    common_b = (f'K<= {Kmax} pre-existing subarrays with UNBOUNDED lengths 0<=l_i<=2^60 (zero-length and '
                f'trailing zero-length subarrays are values), q any int (subarray index), probe any int; '
                f'outside: more than K pre-existing subarrays')
    obs.append(Ob('R-append', 'h_append',
                  splits=[dict(K=K, F=1, numtype=nt, bo=bo, atom=at, via='append', forms=(f,), mode=mode)
                          for K in range(0, Kmax + 1) for (nt, bo, at) in cfg[:2 if not thorough else 5]
                          for f in (('same', 'cast', 'list') if K == 1 or thorough else ('cast',))],
                  timeout=T, replay='replay_ragged', sym='l1..lK, k1, q, probe', bounds=common_b))
    obs.append(Ob('R-append-layout', 'h_append',
                  splits=[dict(K=1, F=2, numtype=nt, bo=bo, atom=at, via=via, forms=fs, mode=mode)
                          for (nt, bo, at, via, fs) in [('float64', 'big', (2,), 'append', ('forder',)),
                                                        ('int16', 'little', (2, 3), 'iterappend', ('forder', 'strided')),
                                                        ('int32', 'little', (3,), 'iterappend', ('strided', 'forder'))]],
                  timeout=T * 2, replay='replay_ragged', sym='l1, m, k1, k2, q, probe',
                  bounds='appended ndarrays whose MEMORY LAYOUT is column-major or non-contiguous (atom rank 1 and 2): what is '
                         'stored is the row-major value all the same'))
    obs.append(Ob('R-append-smallindex', 'h_append',
                  splits=[dict(K=K, F=2, numtype='int16', bo='little', atom=at, via='iterappend', forms=('same', 'cast'),
                               indextype=it, mode=mode, _must=('end', 'overflow-refused'))
                          for K in (0, 1) for (it, at) in [('int8', ()), ('uint8', (2,)), ('int16', ())]],
                  timeout=T * 2, replay='replay_ragged', sym='l1..lK, m, k1, k2, q, probe',
                  bounds='small index types with UNBOUNDED appended lengths: either every index fits and the result is '
                         'well-formed, or the call must not complete'))
    obs.append(Ob('R-iterappend', 'h_append',
                  splits=[dict(K=K, F=2, numtype=nt, bo=bo, atom=at, via='iterappend',
                               forms=('same', 'list'), mode=mode)
                          for K in ((0, 1, 2) if thorough else (0, 1)) for (nt, bo, at) in cfg[:2]],
                  timeout=T * 2, replay='replay_ragged', sym='l1..lK, m<=2, k1, k2, q, probe',
                  bounds=common_b + '; m<=2 items per iterappend (m=0 included)'))
    obs.append(Ob('R-truncate', 'h_truncate',
                  splits=[dict(K=K, numtype=nt, bo=bo, atom=at, bypath=bp, mode=mode, thenappend=ta, neg=ng,
                               _must=('end', 'legal') if ng else ('end', 'legal', 'illegal'))
                          for K in range(1, Kmax + 1)
                          for (nt, bo, at) in (cfg[:2] if (thorough or K == 1) else cfg[1:2])
                          for bp in ((False, True) if K == 2 else (False,))
                          for ta in ((False, True) if thorough else (True,)) for ng in (False, True)],
                  timeout=T * 2, must_reach=('end', 'legal'),
                  regions=('truncate_removes_no_values',), replay='replay_ragged',
                  sym='l1..lK, index (any int), thenappend, k1, q, probe', bounds=common_b))
    if mode == 'api':
        obs.append(Ob('R-getitem-bad', 'h_getitem_bad',
                      splits=[dict(K=1, kind=k) for k in ('float', 'str', 'none', 'slice', 'tuple')],
                      timeout=T, replay='replay_ragged', sym='l1', bounds='K=1; index in {1.0,"0",None,slice,tuple}'))
        obs.append(Ob('R-iter', 'h_iter',
                      splits=[dict(K=K, atom=at) for K in range(0, Kmax + 1) for at in [(), (2,)]],
                      timeout=T * 2, must_reach=('end', 'ok', 'error'), replay='replay_ragged',
                      sym='l1..lK, start, end, step, useend, probe',
                      bounds=f'K<={Kmax}; -K-1<=start,end<=K+1, -3<=step<=3 (0 included), endindex None or int'))
    obs.append(Ob('R-create', 'h_create',
                  splits=[dict(numtype=nt, atom=at, indextype=it, napp=2 if it in ('int8', 'int64') else 1, mode=mode)
                          for (nt, at) in [('float32', ()), ('int16', (2,))]
                          for it in (INDEXTYPES if thorough or nt == 'float32' else ('int32', 'int64'))],
                  timeout=T, regions=('create_indextype_not_int64',), replay='replay_ragged',
                  sym='k1, k2, q, probe', bounds='create_raggedarray then <=2 appends of 0<=k<=60 rows; all 7 index types'))
    obs.append(Ob('R-as', 'h_as',
                  splits=[dict(m=m, numtype=nt, atom=at, indextype=it, dtypearg=da, withmeta=wm, mode=mode)
                          for (m, nt, at, it, da, wm) in
                          [(1, 'int32', (), 'int64', False, False), (2, 'float64', (2,), 'int16', True, True),
                           (3, 'uint16', (), 'uint8', False, False), (2, 'complex128', (1,), 'uint32', True, False)]
                          + ([(3, 'float32', (2, 3), 'int8', True, True), (2, 'int8', (), 'uint16', False, True)]
                             if thorough else [])],
                  timeout=T * 2, replay='replay_ragged', sym='k1..km, q, probe',
                  bounds='asraggedarray of m<=3 items of 0<=k<=50 rows (zero-length first item included)'))
    obs.append(Ob('R-SEQ2', 'h_seq',
                  splits=[dict(K=K, atom=at, mode=mode, o1=o1) for K in ((0, 1, 2) if thorough else (0, 1))
                          for at in ([(), (2,)] if thorough else [()]) for o1 in range(4) for o2 in range(4)],
                  timeout=T * 3, regions=('truncate_removes_no_values',), replay='replay_ragged',
                  sym='l1..lK, o1, o2, x1, x2, q, probe',
                  bounds='2 symbolically chosen ops from {append x rows (list), truncate to x, reopen, '
                         'mode r/failed append/r+}; sizes unbounded'))
    return obs


def conformance(tier):
    from ..conformance import scenarios
    return scenarios.run(['ragged_basic'])
