"""C19 - interleaved iterators / contexts on one Array are memory-safe and coherent."""
from ..runner import Ob
from .common import *
from .. import replay as rp
from .c03 import dt_of, ASSUMPTIONS as _A
from ..env.symnp import UseAfterUnmap

PROPERTY = 'C19'
ASSUMPTIONS = _A + ['N-memmap: after _mmap.close() the memmap array and its views dangle; NumPy holds no buffer export '
                    'that would make close() fail (measured: the pinned tree dies with SIGSEGV in replay)',
                    'schedules are enumerated through the path explorer (action codes are symbolic ints); data sizes are symbolic']
D = loader.load(env=True, stub_readme=True)
np = symnp
ACTIONS = ['adv-g1', 'adv-g2', 'close-g1', 'close-g2', 'enter', 'exit', 'read', 'write']


class Gen:
    def __init__(self, arr, c, n, s=None):
        self.c = c
        self.s = c if s is None else s     # step between chunk starts (overlapping chunks when s < c)
        self.rem_done = False
        self.g = None
        self.done = False
        self.k = 0          # frames yielded so far
        self.arr = arr
        self.n = n

    def started(self):
        return self.g is not None


def h_schedule(n: int, c1: int, c2: int, s1: int, order: bool, probe: int, acts=(0, 1), MAXCH=2,
               overlap=False, rmode=False, _gate=None, _small=False):
    """a well-formed schedule of L actions over two iterchunks generators (chunk lengths c1, c2),
    up to two nested open_array() contexts, element reads and writes; then every survivor is
    finished (generators in either order)."""
    assume(1 <= n <= BIG and 1 <= c1 <= BIG and 1 <= c2 <= BIG)
    if overlap:
        assume(1 <= s1 <= c1 and n - c1 < MAXCH * s1 and n <= MAXCH * c2)     # g1 yields overlapping chunks
    else:
        assume(s1 == c1 and n <= MAXCH * c1 and n <= MAXCH * c2)           # at most MAXCH chunks per generator
    small(_small, n, c1, c2, s1)
    w = new_world()
    put_array(D, w, '/w/a', n, 'int32', 'little', ())
    # rmode: a READ-ONLY handle whose second generator and contexts ask for accessmode='r+' explicitly
    arr = D.array.Array('/w/a', accessmode='r' if rmode else 'r+')
    ref = Seq.of(('orig',), n)
    gens = [Gen(arr, c1, n, s1), Gen(arr, c2, n)]
    ctxs = []
    nwrites = 0

    def advance(g):
        nonlocal ref
        if not g.started():
            g.g = arr.iterchunks(g.c, stepsize=g.s if overlap and g is gens[0] else None,
                                 accessmode='r+' if (rmode and g is gens[1]) else None)
        fs = g.k * g.s
        lastend = (g.k - 1) * g.s + g.c if g.k >= 1 else 0
        full = fs + g.c <= n
        rem_due = (not full) and (not g.rem_done) and fs < n and n > lastend
        try:
            ch = next(g.g)
        except StopIteration:
            g.done = True
            if full or rem_due:
                raise Violation('generator stopped before the end of the array')
            return
        if full:
            fe = fs + g.c
        elif rem_due:
            fe = n
            g.rem_done = True
        else:
            raise Violation('generator yielded a chunk beyond the specified frames')
        rows = ch._rows()
        if ch.shape[0] != fe - fs or not seq_equal(rows, ref.cut(fs, fe), probe):
            raise Violation('a yielded chunk differs from the array contents at that moment',
                            got=repr(rows), want=repr(ref.cut(fs, fe)))
        g.k += 1

    try:
        for x in acts:
            if x in (0, 1):
                g = gens[x]
                assume(not g.done)
                advance(g)
            elif x in (2, 3):
                g = gens[x - 2]
                assume(g.started() and not g.done)
                g.g.close()
                g.done = True
            elif x == 4:
                assume(len(ctxs) < 2)
                cm = arr.open_array(accessmode='r+') if rmode else arr.open_array()
                cm.__enter__()
                ctxs.append(cm)
            elif x == 5:
                assume(len(ctxs) > 0)
                ctxs.pop().__exit__(None, None, None)
            elif x == 6:
                v = arr[slice(0, 2)]
                got = v._rows()
                m = 2 if n >= 2 else n
                if not seq_equal(got, ref.cut(0, m), probe):
                    raise Violation('an element read differs from the array contents at that moment')
            elif x == 7:
                assume(not rmode)
                nwrites += 1
                key = np._segs_key(ref)
                arr[np.OpaqueIndex(f'i{nwrites}', True)] = np.OpaqueValue(f'w{nwrites}', True)
                ref = Seq.of(('assigned', f'i{nwrites}', f'w{nwrites}', key), n)
        # finish the survivors: contexts (LIFO) and generators in either order
        first, second = (gens[0], gens[1]) if order else (gens[1], gens[0])
        for g in (first, second):
            if g.started() and not g.done:
                # exhaust it
                for _ in range(MAXCH + 2):
                    if not g.done:
                        advance(g)
        while ctxs:
            ctxs.pop().__exit__(None, None, None)
    except UseAfterUnmap:
        raise Violation('a memory map was used after it had been closed by another user '
                        '(the interpreter would read unmapped memory)')
    # writes took effect and are durable
    if not seq_equal(read_all(D.array.Array('/w/a')), ref, probe):
        raise Violation('writes did not take effect / contents differ at the end')
    no_open_handles(w, 'after all generators and contexts are finished')
    reach('end')


# ---- replay: each schedule in its own process on a multi-MB array -------------------------------------------
_CHILD = r'''
import sys, json, os, warnings
warnings.simplefilter('ignore')
import numpy as np, darr
spec = json.loads(SPEC)
p = spec['path']; n = spec['n']; ROW = spec['rowscale']
N = n * ROW
a = darr.asarray(p, np.arange(N, dtype='int32'), accessmode='r' if spec.get('rmode') else 'r+')
ref = np.arange(N, dtype='int32')
gens = [None, None]; done = [False, False]; k = [0, 0]; cs = [spec['c1'] * ROW, spec['c2'] * ROW]
ss = [spec.get('s1', spec['c1']) * ROW, spec['c2'] * ROW]; remd = [False, False]
ctxs = []
probs = []
def advance(i):
    if gens[i] is None: gens[i] = a.iterchunks(cs[i], stepsize=ss[i], accessmode='r+' if (spec.get('rmode') and i == 1) else None)
    try: ch = next(gens[i])
    except StopIteration:
        done[i] = True; return
    fs = k[i] * ss[i]; fe = fs + cs[i] if fs + cs[i] <= N else N
    if ch.shape[0] != fe - fs or ch.tobytes() != ref[fs:fe].tobytes(): probs.append(f'chunk {k[i]} of g{i+1} ({fs}:{fe}) differs from the array contents at that moment')
    k[i] += 1
for x in spec['acts']:
    if x in (0, 1): advance(x)
    elif x in (2, 3): gens[x-2].close(); done[x-2] = True
    elif x == 4:
        cm = a.open_array(accessmode='r+') if spec.get('rmode') else a.open_array(); cm.__enter__(); ctxs.append(cm)
    elif x == 5: ctxs.pop().__exit__(None, None, None)
    elif x == 6:
        if a[0:2].tobytes() != ref[0:2].tobytes(): probs.append('read differs')
    elif x == 7:
        a[::2] = 7; ref[::2] = 7
order = [0, 1] if spec['order'] else [1, 0]
for i in order:
    if gens[i] is not None and not done[i]:
        for _ in range(8):
            if not done[i]: advance(i)
while ctxs: ctxs.pop().__exit__(None, None, None)
if darr.Array(p)[:].tobytes() != ref.tobytes(): probs.append('final contents differ')
fds = [x for x in os.listdir('/proc/self/fd') if os.path.realpath('/proc/self/fd/' + x).startswith(p)]
if fds: probs.append('file descriptors still open')
print(json.dumps({'probs': probs}))
'''


def replay_schedule(cex, d):
    import json
    fx = dict(d.get('fixed') or {})
    fx.update(cex)
    acts = [int(x) for x in fx['acts']]
    n, c1, c2 = int(fx['n']), int(fx['c1']), int(fx['c2'])
    if max(n, c1, c2) > 64:
        return {'reproduced': False, 'skip': True, 'detail': 'sizes too large'}
    rowscale = max(1, (4 * 1024 * 1024) // (4 * max(1, min(c1, c2))))     # every chunk spans several MB
    spec = dict(n=n, c1=c1, c2=c2, s1=int(fx.get('s1', c1)), acts=acts, order=bool(fx['order']), rowscale=rowscale, rmode=bool(fx.get('rmode')))
    with rp.scratch() as tmp:
        spec['path'] = tmp + '/a'
        rc, out, err = rp.run_child(_CHILD.replace('SPEC', repr(json.dumps(spec))), timeout=300)
    names = [ACTIONS[x] for x in acts]
    if rc < 0:
        import signal
        return {'reproduced': True, 'detail': f'schedule {names} (n={n}, c1={c1}, c2={c2}): the interpreter was killed by '
                                              f'{signal.Signals(-rc).name}'}
    if rc != 0:
        return {'reproduced': True, 'detail': f'schedule {names}: child exited {rc}: {err[-300:]}'}
    o = json.loads(out.strip().splitlines()[-1])
    if o['probs']:
        return {'reproduced': True, 'detail': f'schedule {names}: ' + '; '.join(o['probs'][:3])}
    return {'reproduced': False, 'detail': f'schedule {names} runs clean on the real code'}


def wellformed(L):
    """all well-formed schedules of exactly L actions (simulated on the abstract state)"""
    out = []

    def rec(acts, started, done, depth):
        if len(acts) == L:
            out.append(tuple(acts))
            return
        for x in range(len(ACTIONS)):
            st, dn, dp = list(started), list(done), depth
            if x in (0, 1):
                if dn[x]:
                    continue
                st[x] = True        # (a generator may get exhausted; over-approximate as still alive)
            elif x in (2, 3):
                if not st[x - 2] or dn[x - 2]:
                    continue
                dn[x - 2] = True
            elif x == 4:
                if dp >= 2:
                    continue
                dp += 1
            elif x == 5:
                if dp == 0:
                    continue
                dp -= 1
            rec(acts + [x], st, dn, dp)
    rec([], [False, False], [False, False], 0)
    return out


def obligations(tier):
    thorough = tier == 'thorough'
    L = 4 if thorough else 3
    T = 600 if thorough else 200
    scheds = wellformed(L)
    # symmetric schedules (g1 <-> g2 swapped) are the same up to the chunk length names: keep one of each pair
    def swap(a):
        m = {0: 1, 1: 0, 2: 3, 3: 2}
        return tuple(m.get(x, x) for x in a)
    keep = []
    seen = set()
    for a in scheds:
        if swap(a) in seen:
            continue
        seen.add(a)
        keep.append(a)
    splits = [dict(acts=a, MAXCH=2, _must=('end',)) for a in keep]
    if thorough:
        # deeper data bound (3 chunks per generator) on the length-3 schedules; sized for ~25 min on 16 cores
        splits += [dict(acts=a, MAXCH=3, _must=('end',)) for a in wellformed(3) if a[0] <= a[-1] or 7 in a]
    three = wellformed(3)
    # overlapping chunks matter when a write lands between advances; mode mixing needs a read-only handle
    # and users that ask for 'r+' explicitly (no writes) - both on ALL length-3 schedules in both tiers
    splits += [dict(acts=a, MAXCH=2, overlap=True, _must=('end',)) for a in three if 7 in a and 0 in a]
    splits += [dict(acts=a, MAXCH=2, rmode=True, _must=('end',)) for a in three
               if 7 not in a and (1 in a or 4 in a) and 0 in a]
    return [Ob('SCHED', 'h_schedule', splits=splits, timeout=T, replay='replay_schedule', per_path_timeout=60,
               sym='n, c1, c2 (array length, chunk lengths), order (finishing order of the survivors), probe',
               bounds=f'ALL {len(keep)} well-formed schedules (up to renaming g1<->g2) of L={L} actions over {{advance/close g1, '
                      f'advance/close g2, enter/exit up to two nested open_array() contexts, read, write}}, each completed by '
                      f'finishing the survivors in either order; schedules are enumerated by the runner (finite alphabet), array '
                      f'length and chunk lengths are unbounded symbolic with at most {3 if thorough else 2} chunks per generator; '
                      f'outside: three generators, longer schedules')]


def conformance(tier):
    from ..conformance import scenarios
    return scenarios.run(['interleave'])
