"""C17 - a process crash at any point never makes Darr return wrong data."""
from ..runner import Ob
from .common import *
from .. import replay as rp
from .c03 import mk_input, dt_of, ASSUMPTIONS as _A
from .c04 import lens_of, RA
from ..env.symfs import Crash

PROPERTY = 'C17'
ASSUMPTIONS = _A + ['F-crash: process death, not power loss: bytes handed to write()/tofile() before the '
                    'crash are on disk, the in-flight primitive may be torn (any byte prefix of a binary '
                    'write; a rewritten text file is empty, a strict prefix (never valid JSON) or complete)',
                    'distinct on-disk states only arise at the FS-mutating primitives of the model '
                    '(create/O_TRUNC, write, truncate, unlink, mkdir, rmdir, mmap write-through)']
D = loader.load(env=True, stub_readme=True)
np = symnp
HORIZON = 40


class IterBoom(Exception):
    pass


def arm(w, crash_at, torn, torn_text, cr=None):
    assume(0 <= crash_at <= HORIZON)
    if cr is not None:
        assume(cr[0] <= crash_at < cr[1])
    assume(0 <= torn <= BIG * 64)
    w.crash_at = crash_at
    w.torn = torn
    w.torn_text = torn_text


def disarm(w):
    w.crash_at = None
    w.crashed = False


def array_state_legit(a, candidates, atom, probe):
    """the freshly opened Array shows one of the candidate (length, rows) states"""
    got = read_all(a)
    n = got.length()
    for (cn, cref) in candidates:
        if len(a) == cn and n == cn:
            if a.size == cn * symnp._prod(atom) and seq_equal(got, cref, probe):
                return True
    return False


def h_array(n: int, k1: int, k2: int, index: int, crash_at: int, torn: int, torn_text: bool,
            probe: int, op='iterappend', numtype='int32', bo='little', atom=(), failing=False,
            cr=None, _gate=None, _small=False):
    """op in iterappend (2 chunks; optionally the iterable raises after chunk 1 so that the
    recovery path runs) | append | truncate | metadata-set | metadata-del"""
    assume(0 <= n <= BIG and 0 <= k1 <= BIG and 0 <= k2 <= BIG)
    small(_small, n, k1, k2, index)
    w = new_world()
    md = {'k': 1} if op in ('metadata-del', 'metadata-update') else None
    put_array(D, w, '/w/a', n, numtype, bo, atom, metadata=md)
    a = D.array.Array('/w/a', accessmode='r+')
    orig = Seq.of(('orig',), n)
    c1, r1 = mk_input('same', k1, atom, numtype, bo, 1)
    c2, r2 = mk_input('cast', k2, atom, numtype, bo, 2)
    cands = [(n, orig)]
    if op == 'iterappend':
        cands += [(n + k1, orig.concat(r1))]
        if not failing:
            cands += [(n + k1 + k2, orig.concat(r1).concat(r2))]
    elif op == 'append':
        assume(k2 == 0)
        cands += [(n + k1, orig.concat(r1))]
    elif op == 'truncate':
        assume(0 <= index < n)
        cands += [(index, orig.cut(0, index))]
    arm(w, crash_at, torn, torn_text, cr)

    def gen():
        yield c1
        if failing:
            raise IterBoom('boom')
        yield c2
    crashed = False
    try:
        if op == 'iterappend':
            a.iterappend(gen())
        elif op == 'append':
            a.append(c1)
        elif op == 'truncate':
            D.array.truncate_array(a, index)
        elif op == 'metadata-set':
            a.metadata['x'] = 5
        elif op == 'metadata-del':
            a.metadata.pop('k')
        elif op == 'metadata-update':
            a.metadata['x'] = 5
    except Crash:
        crashed = True
        reach('crashed')
    except Exception:
        pass          # (failing iterable) ordinary error: state must still be legitimate
    if not crashed:
        reach('completed')
    disarm(w)
    try:
        b = D.array.Array('/w/a')
        opened = True
    except Exception:
        opened = False          # refusing to open is allowed
        reach('refused')
    if opened:
        reach('opened')
        gt = gt_of(numtype, bo)
        if b.dtype.name != numtype or b.dtype.gt != gt or tuple(b.shape[1:]) != tuple(atom):
            raise Violation('after a crash the array opens with another dtype / atom')
        if not array_state_legit(b, cands, atom, probe):
            raise Violation('after a crash the array opens and shows a state that is neither before, '
                            'after, nor original + whole chunks', got=repr(read_all(b)), len=len(b))
        if op.startswith('metadata'):
            try:
                m = loader._mapping_dict(b.metadata)
            except Exception:
                m = None       # unreadable metadata raises: allowed
            if m is not None:
                if op == 'metadata-set' and m != {} and m != {'x': 5}:
                    raise Violation('metadata shows a state that is neither before nor after', got=m)
                if op == 'metadata-del' and m != {} and m != {'k': 1}:
                    raise Violation('metadata shows a state that is neither before nor after', got=m)
                if op == 'metadata-update' and m != {'k': 1} and m != {'k': 1, 'x': 5}:
                    raise Violation('metadata shows a state that is neither before nor after', got=m)
    reach('end')


def ragged_state_legit(rb, candidates, atom, q, probe):
    K = len(rb)
    for model in candidates:
        if K == len(model):
            N = 0
            for m in model:
                N = N + m.length()
            if rb.size != N * symnp._prod(atom):
                continue
            ok = True
            if 0 <= q < K:
                got = rb[q]
                exp = None
                for i in range(len(model)):
                    if q == i:
                        exp = model[i]
                if not seq_equal(got._rows(), exp, probe):
                    ok = False
            if ok:
                return True
    return False


def h_ragged(l1: int, l2: int, l3: int, k1: int, k2: int, index: int, crash_at: int, torn: int,
             torn_text: bool, q: int, probe: int, op='iterappend', K=1, numtype='float64',
             bo='little', atom=(), failing=False, cr=None, _gate=None, _small=False):
    lens = lens_of(K, l1, l2, l3)
    assume(0 <= k1 <= RBIG and 0 <= k2 <= RBIG)
    small(_small, k1, k2, index, *lens)
    w = new_world()
    model, N = put_ragged(D, w, '/w/r', lens, numtype, bo, atom)
    ra = RA.RaggedArray('/w/r', accessmode='r+')
    c1, r1 = mk_input('same', k1, atom, numtype, bo, 1)
    c2, r2 = mk_input('cast', k2, atom, numtype, bo, 2)
    cands = [model]
    if op == 'iterappend':
        cands += [model + [r1]]
        if not failing:
            cands += [model + [r1, r2]]
    elif op == 'append':
        assume(k2 == 0)
        cands += [model + [r1]]
    elif op == 'truncate':
        assume(0 <= index < K)
        for i in range(K):
            if index == i:
                cands += [model[:i]]
    removed = 0
    if op == 'truncate':
        for i in range(K):
            if i >= index:
                removed = removed + lens[i]
    gate(_gate, {'ragged_truncate_between_subtruncates': op == 'truncate'})
    arm(w, crash_at, torn, torn_text, cr)

    def gen():
        yield c1
        if failing:
            raise IterBoom('boom')
        yield c2
    crashed = False
    try:
        if op == 'iterappend':
            ra.iterappend(gen())
        elif op == 'append':
            ra.append(c1)
        elif op == 'truncate':
            RA.truncate_raggedarray(ra, index)
    except Crash:
        crashed = True
        reach('crashed')
    except Exception:
        pass
    if not crashed:
        reach('completed')
    disarm(w)
    try:
        rb = RA.RaggedArray('/w/r')
        opened = True
    except Exception:
        opened = False
        reach('refused')
    if opened:
        reach('opened')
        if rb.dtype.name != numtype or tuple(rb.atom) != tuple(atom):
            raise Violation('after a crash the ragged array opens with another dtype / atom')
        try:
            ok = ragged_state_legit(rb, cands, atom, q, probe)
        except Exception as e:
            raise Violation(f'after a crash the ragged array opens but reading a subarray raises '
                            f'{type(e).__name__}')
        if not ok:
            raise Violation('after a crash the ragged array opens and shows a state that is neither '
                            'before, after, nor original + whole subarrays', len=len(rb))
    reach('end')


# ---- replay: line-granular crash simulation on the real code ---------------------------------------------
_CHILD = r'''
import sys, json, os, shutil, warnings
warnings.simplefilter('ignore')
import numpy as np, darr
spec = json.loads(SPEC)
root = spec['root']; path = root + '/x'; kind = spec['kind']
atom = tuple(spec['atom']); numtype = spec['numtype']
dt = np.dtype(numtype).newbyteorder('<' if spec['bo'] == 'little' else '>')
def vals(k, base, t=None):
    cnt = k * int(np.prod(atom, dtype=int))
    v = (np.arange(cnt, dtype='int64') + base)
    tt = t or numtype
    if tt.startswith(('int', 'uint')) and np.iinfo(tt).max < 2**62:
        v = v % (int(np.iinfo(tt).max) + 1)
    return v.astype(tt).reshape((k,) + atom)
other = 'float64' if numtype != 'float64' else 'int32'
c1 = vals(spec['k1'], 1000).astype(dt); c2 = vals(spec['k2'], 2000, other)
class Boom(Exception): pass
def gen():
    yield c1
    if spec['failing']: raise Boom()
    yield c2
if kind == 'array':
    n = spec['n']
    orig = vals(n, 1).astype(dt)
    md = {'k': 1} if spec['op'] in ('metadata-del', 'metadata-update') else None
    if n > 0: a = darr.asarray(path, orig, accessmode='r+', metadata=md)
    else: a = darr.create_array(path, shape=(0,) + atom, dtype=dt, accessmode='r+', metadata=md)
    cands = [orig]
    if spec['op'] in ('iterappend', 'append'):
        cands.append(np.concatenate([orig, c1]))
        if spec['op'] == 'iterappend' and not spec['failing']:
            cands.append(np.concatenate([orig, c1, c2.astype(dt)]))
    elif spec['op'] == 'truncate':
        cands.append(orig[:spec['index']])
else:
    lens = spec['lens']
    subs = [vals(l, 1 + 50 * i).astype(dt) for i, l in enumerate(lens)]
    if subs: a = darr.asraggedarray(path, subs, dtype=dt, accessmode='r+')
    else: a = darr.create_raggedarray(path, atom=atom, dtype=dt, accessmode='r+')
    cands = [subs]
    if spec['op'] in ('iterappend', 'append'):
        cands.append(subs + [c1])
        if spec['op'] == 'iterappend' and not spec['failing']:
            cands.append(subs + [c1, c2.astype(dt)])
    elif spec['op'] == 'truncate':
        cands.append(subs[:spec['index']])
snaps = []
def snapshot():
    st = {}
    for dp, dns, fns in os.walk(path):
        for fn in fns:
            with open(os.path.join(dp, fn), 'rb') as f:
                st[os.path.relpath(os.path.join(dp, fn), path)] = f.read()
    if not snaps or snaps[-1] != st:
        snaps.append(st)
def tracer(frame, event, arg):
    fn = frame.f_code.co_filename
    if '/darr/' not in fn or '/tests/' in fn:
        return None
    if event == 'line':
        snapshot()
    return tracer
snapshot()
sys.settrace(tracer)
try:
    op = spec['op']
    if op == 'iterappend': a.iterappend(gen())
    elif op == 'append': a.append(c1)
    elif op == 'truncate': (darr.truncate_array if kind == 'array' else darr.truncate_raggedarray)(a, spec['index'])
    elif op == 'metadata-set': a.metadata['x'] = 5
    elif op == 'metadata-del': a.metadata.pop('k')
    elif op == 'metadata-update': a.metadata['x'] = 5
except BaseException as e:
    pass
sys.settrace(None)
snapshot()
# torn variants of every file that changed between consecutive states
states = list(snaps)
for s0, s1 in zip(snaps, snaps[1:]):
    for fn in s1:
        old, new = s0.get(fn, b''), s1[fn]
        if old != new:
            for cut in (0, len(new) // 2, max(len(new) - 1, 0), (len(old) + len(new)) // 2):
                t = dict(s1); t[fn] = new[:cut]; states.append(t)
bad = []
probe = root + '/probe'
for idx, st in enumerate(states):
    if os.path.exists(probe): shutil.rmtree(probe)
    for fn, data in st.items():
        os.makedirs(os.path.dirname(os.path.join(probe, fn)), exist_ok=True)
        with open(os.path.join(probe, fn), 'wb') as f: f.write(data)
    try:
        b = darr.Array(probe) if kind == 'array' else darr.RaggedArray(probe)
    except BaseException:
        continue
    try:
        if kind == 'array':
            got = b[:]
            ok = any(got.shape == c.shape and got.dtype == c.dtype and got.tobytes() == c.tobytes() for c in cands)
        else:
            got = [b[i] for i in range(len(b))]
            ok = any(len(got) == len(c) and b.size == sum(x.size for x in c) and all(g.shape == x.shape and g.tobytes() == x.tobytes() for g, x in zip(got, c)) for c in cands)
    except BaseException as e:
        ok = False
    if ok and spec['op'].startswith('metadata'):
        mdc = {'metadata-set': [{}, {'x': 5}], 'metadata-del': [{}, {'k': 1}],
               'metadata-update': [{'k': 1}, {'k': 1, 'x': 5}]}[spec['op']]
        try:
            m = dict(b.metadata)
        except BaseException:
            m = None            # unreadable metadata raise: allowed
        if m is not None and m not in mdc:
            ok = False
    if not ok:
        bad.append({'state': idx, 'of': len(states), 'files': {k: len(v) for k, v in st.items()},
                    'len': len(b), 'size': b.size})
print(json.dumps({'states': len(states), 'line_states': len(snaps), 'bad': bad[:3]}))
'''


def replay_crash(cex, d):
    import json
    fx = dict(d.get('fixed') or {})
    fx.update(cex)
    ob = d.get('ob') or d.get('obligation')
    kind = 'ragged' if ob.startswith('CRASH-ragged') else 'array'
    spec = dict(kind=kind, op=fx['op'], atom=tuple(fx.get('atom', ())), numtype=fx['numtype'], bo=fx['bo'],
                k1=int(fx['k1']), k2=int(fx['k2']), index=int(fx.get('index', 0)),
                failing=bool(fx.get('failing')))
    if kind == 'array':
        spec['n'] = int(fx['n'])
        sizes = [spec['n']]
    else:
        spec['lens'] = [int(fx[f'l{i + 1}']) for i in range(int(fx['K']))]
        sizes = spec['lens']
    if max(sizes + [spec['k1'], spec['k2']]) > 2000:
        return {'reproduced': False, 'skip': True, 'detail': 'sizes too large to materialise'}
    with rp.scratch() as tmp:
        spec['root'] = tmp
        rc, out, err = rp.run_child(_CHILD.replace('SPEC', repr(json.dumps(spec))), timeout=300)
        if rc != 0 or not out.strip():
            return {'reproduced': False, 'detail': f'replay child failed rc={rc}: {err[-700:]}'}
        o = json.loads(out.strip().splitlines()[-1])
    if o['bad']:
        return {'reproduced': True,
                'detail': f"of {o['states']} on-disk states (line-granular crash points + torn variants) "
                          f"{len(o['bad'])}+ open successfully showing an illegitimate state: {o['bad'][:2]} [spec {spec}]"}
    return {'reproduced': False, 'detail': f"all {o['states']} crash states raise or show a legitimate state [spec {spec}]"}


def obligations(tier):
    thorough = tier == 'thorough'
    T = 900 if thorough else 240
    obs = []
    cfgs = [('int32', 'little', ()), ('float64', 'big', (2,))]
    asplits = []
    for op, failing in (('iterappend', False), ('iterappend', True), ('append', False),
                        ('truncate', False), ('metadata-set', False), ('metadata-del', False),
                        ('metadata-update', False)):
        for (nt, bo, at) in (cfgs if thorough or op in ('iterappend', 'truncate') else cfgs[:1]):
            for cr in ([(0, 5), (5, HORIZON + 1)] if op == 'iterappend' else [None]):
                asplits.append(dict(op=op, failing=failing, numtype=nt, bo=bo, atom=at, cr=cr,
                                    _must=('end', 'opened') if cr else ('end', 'crashed', 'completed', 'opened')))
    obs.append(Ob('CRASH-array', 'h_array', splits=asplits, timeout=T,
                  must_reach=('end', 'crashed', 'completed', 'opened'), replay='replay_crash',
                  sym='n, k1, k2, index, crash_at, torn (bytes), torn_text, probe',
                  bounds=f'n>=0 unbounded (empty and non-empty start), <=2 appended chunks of unbounded length, '
                         f'crash before ANY FS-mutating primitive (crash_at in 0..{HORIZON}, no crash included), '
                         f'in-flight binary write torn at ANY byte prefix, in-flight text write empty/torn/absent; '
                         f'one crash per run; outside: power loss / page-cache reordering, crashes inside creation'))
    rsplits = []
    for op, failing in (('iterappend', False), ('iterappend', True), ('append', False), ('truncate', False)):
        for K in ((0, 1, 2) if thorough else (1,)) if op != 'truncate' else ((1, 2, 3) if thorough else (1, 2)):
            for (nt, bo, at) in ([('float64', 'little', ())] if not thorough else [('float64', 'little', ()), ('int16', 'big', (2,))]):
                ranges = [(0, 6), (6, 10), (10, 14), (14, HORIZON + 1)] if op != 'truncate' else [None]
                for cr in ranges:
                    rsplits.append(dict(op=op, failing=failing, K=K, numtype=nt, bo=bo, atom=at, cr=cr,
                                        _must=('end',)))
    obs.append(Ob('CRASH-ragged', 'h_ragged', splits=rsplits, timeout=T * 2,
                  must_reach=('end', 'crashed', 'completed'), replay='replay_crash',
                  regions=('ragged_truncate_between_subtruncates',),
                  sym='l1..lK, k1, k2, index, crash_at, torn, torn_text, q, probe',
                  bounds=f'K pre-existing subarrays (unbounded lengths), <=2 appended items, crash_at in 0..{HORIZON}, '
                         f'torn binary/text writes; one crash per run'))
    return obs


def conformance(tier):
    from ..conformance import scenarios
    return scenarios.run(['array_append', 'array_failappend', 'ragged_basic'])
