"""C14 - chunk iteration yields exactly the specified frames."""
import os
import time

from ..runner import Ob
from .common import *
from .. import replay as rp
from .c03 import dt_of, ASSUMPTIONS as _A
from ..smt import py2smt
from ..smt.py2smt import Sym

PROPERTY = 'C14'
ASSUMPTIONS = _A + ['E2 lemmas range over mathematical integers; "float arguments equal to integers" are covered by '
                    'restricting reals to integers (exact: the only float operations in fit_frames are `% 1` and int())',
                    'z3 4.8.12, z3 5.1 and cvc5 1.0.3 must all answer unsat for an E2 lemma to count']
D = loader.load(env=True, stub_readme=True)
np = symnp
REPO = loader.REPO


# ---- E1: real fit_frames / iterindices / iterchunks under CrossHair ---------------------------------------
def h_fitframes(t: int, c: int, s: int, usestep: bool, _gate=None, _small=False):
    """fit_frames(totallen, chunklen, steplen) for ALL integers"""
    small(_small, t, c, s)
    try:
        r = D.utils.fit_frames(t, c, s if usestep else None)
        err = None
    except ValueError as e:
        err = e
    except Exception as e:
        raise Violation(f'fit_frames raised {type(e).__name__}')
    step = s if usestep else c
    valid = t >= 0 and c >= 1 and step >= 1
    gate(_gate, {})
    if not valid:
        if err is None:
            raise Violation('fit_frames accepted parameters outside the documented ranges', got=r)
        reach('invalid')
        return
    if err is not None:
        raise Violation('fit_frames raised ValueError for valid parameters')
    n, covered, rem = r
    if c > t:
        if not (n == 0 and covered == 0 and rem == t):
            raise Violation('fit_frames wrong for chunklen > totallen', got=r)
    else:
        if not (n >= 1 and (n - 1) * step + c <= t and n * step + c > t):
            raise Violation('fit_frames count is not the number of frames that fit', got=r)
        if covered != (n - 1) * step + c or rem != t - covered:
            raise Violation('fit_frames covered length / remainder wrong', got=r)
    reach('valid')
    reach('end')


class _Stub:
    def __init__(self, n):
        self.shape = (n,)


def h_iterindices(n: int, c: int, s: int, a: int, b: int, usestep: bool, usea: bool, useb: bool,
                  rem: bool, KMAX=3, _gate=None, _small=False):
    """Array.iterindices with every parameter symbolic; trip count <= KMAX via the precondition"""
    assume(0 <= n <= BIG)
    small(_small, n, c, s, a, b)
    step = s if usestep else c
    start = a if usea else 0
    end = b if useb else n
    valid = c >= 1 and step >= 1 and 0 <= start < end <= n
    if valid:
        assume(end - start - c < KMAX * step)       # at most KMAX full frames
    else:
        assume(-BIG <= c <= BIG and -BIG <= s <= BIG and -BIG <= a <= BIG and -BIG <= b <= BIG)
    try:
        frames = list(D.array.Array.iterindices(_Stub(n), c, stepsize=s if usestep else None,
                                                startindex=a if usea else None,
                                                endindex=b if useb else None, include_remainder=rem))
        err = None
    except ValueError as e:
        frames, err = None, e
    except Exception as e:
        raise Violation(f'iterindices raised {type(e).__name__}')
    gate(_gate, {})
    if not valid:
        if err is None:
            raise Violation('iterindices accepted parameters outside the documented ranges',
                            frames=frames)
        reach('invalid')
        return
    if err is not None:
        raise Violation('iterindices raised ValueError for valid parameters')
    # full frames: exactly the k >= 0 with start + k*step + c <= end
    K = 0
    for i in range(len(frames)):
        fs, fe = frames[i]
        if fs == start + i * step and fe == fs + c and fe <= end:
            K = i + 1
        else:
            break
    if start + K * step + c <= end:
        raise Violation('a full frame that fits was not yielded', frames=frames)
    nxt = start + K * step
    lastend = start + (K - 1) * step + c if K >= 1 else start
    want_rem = rem and end > lastend and nxt < end
    if want_rem:
        if len(frames) != K + 1 or frames[K][0] != nxt or frames[K][1] != end:
            raise Violation('the partial (remainder) frame is missing or wrong', frames=frames)
        reach('remainder')
    else:
        if len(frames) != K:
            raise Violation('an unexpected extra frame was yielded', frames=frames)
    reach('valid')
    reach('end')


def h_iterchunks(n: int, c: int, a: int, b: int, rem: bool, probe: int, atom=(), KMAX=3,
                 tiling=True, s: int = 0, _gate=None, _small=False):
    """iterchunks yields detached copies of a[frame]; with step == chunklen and the remainder
    included the chunks concatenate to a[start:end]"""
    assume(1 <= n <= BIG and c >= 1 and 0 <= a < b <= n)
    step = c if tiling else s
    assume(step >= 1 and b - a - c < KMAX * step)
    small(_small, n, c, a, b, s)
    w = new_world()
    put_array(D, w, '/w/a', n, 'int32', 'big', atom)
    arr = D.array.Array('/w/a')
    chunks = list(arr.iterchunks(c, stepsize=None if tiling else s, startindex=a, endindex=b,
                                 include_remainder=rem))
    frames = list(D.array.Array.iterindices(_Stub(n), c, stepsize=None if tiling else s,
                                            startindex=a, endindex=b, include_remainder=rem))
    if len(chunks) != len(frames):
        raise Violation('iterchunks and iterindices disagree on the number of frames')
    orig = Seq.of(('orig',), n)
    cat = Seq()
    for ch, (fs, fe) in zip(chunks, frames):
        if getattr(ch, '_mapowner', None) is not None:
            raise Violation('iterchunks yielded a view of the memory map, not a detached copy')
        if ch.shape[0] != fe - fs or not seq_equal(ch._rows(), orig.cut(fs, fe), probe):
            raise Violation('a chunk differs from a[frame]')
        cat = cat.concat(ch._rows())
    if tiling and rem:
        if not seq_equal(cat, orig.cut(a, b), probe):
            raise Violation('chunks with step == chunklen and remainder do not concatenate to a[start:end]',
                            got=repr(cat))
        reach('tiles')
    no_open_handles(w, 'after exhausting iterchunks')
    reach('end')


# ---- E2: lemmas generated from the source AST, decided by three solvers --------------------------------------
def _side_smt():
    return ''.join(f'(declare-const {d} Int)' for d in py2smt.SIDE['decls']) + \
        ''.join(f'(assert {a})' for a in py2smt.SIDE['asserts'])


def _float_search(qs, usestep):
    """fit_frames uses true division: the encoding is exact only below 2^53.  Look for a refutation where doubles
    cannot represent odd integers (divisor 1, odd dividend in (2^53, 2^54)) and CONFIRM it on the real function."""
    import z3
    darr, np_ = rp.real()
    real = darr.utils.fit_frames
    for pc, ok in qs:
        for (name, a, b) in py2smt.SIDE['quots']:
            sol = z3.Solver()
            sol.set('timeout', 20000)
            sol.from_string('(declare-const t Int)(declare-const c Int)(declare-const s Int)' + _side_smt()
                            + ''.join(f'(assert {p})' for p in pc) + f'(assert (not {ok}))'
                            + f'(assert (= {b} 1))(assert (> {a} 9007199254740992))(assert (< {a} 18014398509481984))'
                            + f'(assert (= (mod {a} 2) 1))')
            if str(sol.check()) != 'sat':
                continue
            m = sol.model()
            t, c, s = (m.eval(z3.Int(x), model_completion=True).as_long() for x in ('t', 'c', 's'))
            sv = s if usestep else None
            step = s if usestep else c
            if not (t >= 0 and c >= 1 and step >= 1 and c <= t):
                continue
            K = (t - c) // step + 1
            want = (K, (K - 1) * step + c, t - ((K - 1) * step + c))
            try:
                got = tuple(int(x) for x in real(t, c, sv))
            except Exception as e:
                got = repr(e)
            if got != want:
                return {'t': t, 'c': c, 's': s, 'usestep': usestep, 'got': str(got), 'want': str(want)}
    return None


def _fitframes_paths(usestep):
    py2smt.reset_side()
    fn = py2smt.find_function(os.path.join(REPO, 'darr', 'utils.py'), 'fit_frames')
    env = {'totallen': Sym('int', 't'), 'chunklen': Sym('int', 'c'),
           'steplen': Sym('int', 's') if usestep else Sym('none', None)}
    return list(py2smt.paths(fn.body, env, []))


def _lemma_fitframes(usestep):
    ps = _fitframes_paths(usestep)
    step = 's' if usestep else 'c'
    valid = f'(and (>= t 0) (>= c 1) (>= {step} 1))'
    qs = []
    for pc, out, env in ps:
        if out is None:
            raise py2smt.Unsupported('path falls off the end')
        if out[0] == 'raise':
            ok = f'(and (not {valid}) true)' if out[1] == 'ValueError' else 'false'
        else:
            n, cov, rem = out[1]
            spec = (f'(ite (> c t) (and (= {n} 0) (= {cov} 0) (= {rem} t)) '
                    f'(and (>= {n} 1) (<= (+ (* (- {n} 1) {step}) c) t) (> (+ (* {n} {step}) c) t) '
                    f'(= {cov} (+ (* (- {n} 1) {step}) c)) (= {rem} (- t {cov}))))')
            ok = f'(and {valid} {spec})'
        qs.append((pc, ok))
    return ps, qs


def _smt_for(qs, decls=('t', 'c', 's'), extra=''):
    lines = ['(set-logic ALL)'] + [f'(declare-const {d} Int)' for d in decls]
    if extra:
        lines.append(extra)
    for pc, ok in qs:
        lines.append('(push 1)')
        for p in pc:
            lines.append(f'(assert {p})')
        lines.append(f'(assert (not {ok}))')
        lines.append('(check-sat)')
        lines.append('(pop 1)')
    return '\n'.join(lines) + '\n'


def _validate_translator():
    """push the repository's own FitChunks inputs and a grid through the real function and the encoding"""
    import z3
    real = rp.real()[0].utils.fit_frames
    cases = [(10, 2, None), (10, 3, None), (10, 3, 1), (10, 11, None), (0, 1, None), (7, 7, 7), (12, 5, 2),
             (13, 2, None), (12, 2, None), (5, 0, None), (-1, 2, None), (5, 2, 0), (5, 2, -1), (3, 5, 0)]
    cases += [(t, c, s) for t in range(0, 7) for c in range(0, 5) for s in (None, 1, 2, 3)]
    bad = []
    n = 0
    for usestep in (False, True):
        ps = _fitframes_paths(usestep)
        for (t, c, s) in cases:
            if (s is not None) != usestep:
                continue
            try:
                want = ('return',) + tuple(int(x) for x in real(t, c, s))
            except ValueError:
                want = ('raise', 'ValueError')
            got = None
            for pc, out, env in ps:
                sol = z3.Solver()
                decl = '(declare-const t Int)(declare-const c Int)(declare-const s Int)'
                cond = ''.join(f'(assert {p})' for p in pc)
                extra = ''
                if out[0] == 'return':
                    extra = ''.join(f'(declare-const r{i} Int)(assert (= r{i} {term}))' for i, term in enumerate(out[1]))
                sol.from_string(decl + _side_smt() + _vals(t, c, s) + cond + extra)
                if str(sol.check()) == 'sat':
                    m = sol.model()
                    if out[0] == 'return':
                        got = ('return',) + tuple(m.eval(z3.Int(f'r{i}'), model_completion=True).as_long()
                                                  for i in range(len(out[1])))
                    else:
                        got = ('raise', out[1])
                    break
            n += 1
            if got != want:
                bad.append(f'fit_frames{(t, c, s)}: real {want}, encoding {got}')
    return n, bad


def _vals(t, c, s):
    def lit(v):
        return str(v) if v >= 0 else f'(- {-v})'
    out = f'(assert (= t {lit(t)}))(assert (= c {lit(c)}))'
    if s is not None:
        out += f'(assert (= s {lit(s)}))'
    return out


def _loop_body_lemma():
    """iterindices: the loop body preserves framestart = start + j*step, frameend = framestart + chunklen"""
    fn = py2smt.find_function(os.path.join(REPO, 'darr', 'array.py'), 'iterindices', cls='Array')
    import ast
    loop = [s for s in fn.body if isinstance(s, ast.For)]
    if len(loop) != 1:
        raise py2smt.Unsupported('iterindices: expected exactly one for loop')
    body = [s for s in loop[0].body if not (isinstance(s, ast.Expr) and isinstance(s.value, ast.Yield))]
    yields = [s for s in loop[0].body if isinstance(s, ast.Expr) and isinstance(s.value, ast.Yield)]
    if len(yields) != 1 or loop[0].body.index(yields[0]) != 0:
        raise py2smt.Unsupported('iterindices: yield is not the first statement of the loop body')
    y = yields[0].value.value
    env = {'framestart': Sym('int', 'fs'), 'frameend': Sym('int', 'fe'), 'stepsize': Sym('int', 'step'),
           'chunklen': Sym('int', 'c'), 'startindex': Sym('int', 'a')}
    yl = [py2smt.expr(e, env).term for e in y.elts]
    ps = list(py2smt.paths(body, env, []))
    if len(ps) != 1 or ps[0][1] is not None:
        raise py2smt.Unsupported('iterindices: loop body is not straight-line')
    e2 = ps[0][2]
    inv = '(and (= fs (+ a (* j step))) (= fe (+ fs c)))'
    post = f'(and (= {e2["framestart"].term} (+ a (* (+ j 1) step))) (= {e2["frameend"].term} (+ {e2["framestart"].term} c)))'
    yielded = f'(and (= {yl[0]} (+ a (* j step))) (= {yl[1]} (+ (+ a (* j step)) c)))'
    smt = ('(set-logic ALL)\n' + ''.join(f'(declare-const {d} Int)\n' for d in ('fs', 'fe', 'step', 'c', 'a', 'j'))
           + f'(assert {inv})\n(assert (not (and {post} {yielded})))\n(check-sat)\n')
    return smt


def h_lemmas(**kw):
    t0 = time.time()
    lemmas = []
    status = 'holds'
    what = []
    try:
        nval, bad = _validate_translator()
        if bad:
            return dict(status='error', reason='translator validation failed: ' + '; '.join(bad[:3]), paths=nval,
                        paths_ok=0, solver={}, reached=[], notes=[])
        for usestep in (False, True):
            ps, qs = _lemma_fitframes(usestep)
            # vacuity guard: every path condition must be satisfiable on its own
            import z3
            for pc, ok in qs:
                sol = z3.Solver()
                sol.from_string('(declare-const t Int)(declare-const c Int)(declare-const s Int)' + _side_smt()
                                + ''.join(f'(assert {p})' for p in pc))
                if str(sol.check()) != 'sat':
                    return dict(status='vacuous', reason='a path condition of fit_frames is unsatisfiable',
                                paths=nval, paths_ok=0, solver={}, reached=[], notes=[])
            if py2smt.SIDE['quots']:
                # true division int(a / b) in the source: exact below 2^53, over-approximated above
                fc = _float_search(qs, usestep)
                if fc is not None:
                    return dict(status='violated', paths=nval, paths_ok=nval, reached=['end'], notes=[], lemmas=lemmas,
                                solver={'queries': len(qs), 'solver_s': round(time.time() - t0, 3)},
                                what=f'fit_frames computes its frame count with floating-point division: '
                                     f'fit_frames({fc["t"]}, {fc["c"]}, {fc["s"] if usestep else None}) = {fc["got"]}, '
                                     f'the specification gives {fc["want"]}', cex=fc, reason='')
                bound = ('(assert (and (< t 9007199254740992) (< c 9007199254740992) (< s 9007199254740992)))')
                res = py2smt.run_solvers(_smt_for(qs, extra=_side_smt() + bound))
                lemmas.append({'name': f'fit_frames spec, steplen {"given" if usestep else "None"}: the source divides with '
                                       f'"/" - decided only for arguments below 2^53 where int(a / b) == a // b; no deviation '
                                       f'found above by the steered search', 'solvers': res + [
                                           {'solver': 'bound', 'verdict': 'unknown', 'seconds': 0.0,
                                            'raw': 'float division: not decided beyond 2^53'}]})
                continue
            smt = _smt_for(qs)
            res = py2smt.run_solvers(smt)
            lemmas.append({'name': f'fit_frames spec, steplen {"given" if usestep else "None"} (unbounded ints, '
                                   f'{len(qs)} paths)', 'solvers': res})
            # tiling lemma (step == chunklen): covered = K*c, remainder < c, K*c + remainder = t
            if not usestep:
                tq = []
                for pc, out, env in ps:
                    if out[0] == 'return':
                        n, cov, rem = out[1]
                        tq.append((pc + ['(>= t 0)', '(>= c 1)'],
                                   f'(and (= (+ (* {n} c) {rem}) t) (>= {rem} 0) (< {rem} c))'))
                res = py2smt.run_solvers(_smt_for(tq))
                lemmas.append({'name': 'tiling: step == chunklen => K*c + remainder = total, 0 <= remainder < c',
                               'solvers': res})
        res = py2smt.run_solvers(_loop_body_lemma())
        lemmas.append({'name': 'iterindices loop body preserves frame_j = (start + j*step, start + j*step + chunklen)',
                       'solvers': res})
    except py2smt.Unsupported as e:
        return dict(status='unknown', reason=f'unsupported construct: {e}', paths=0, paths_ok=0, solver={},
                    reached=[], notes=[], lemmas=lemmas)
    secs = 0.0
    q = 0
    for l in lemmas:
        vs = [r['verdict'] for r in l['solvers']]
        secs += sum(r['seconds'] for r in l['solvers'])
        q += len(vs)
        if any(v == 'sat' for v in vs):
            status = 'violated'
            what.append(l['name'])
        elif not all(v == 'unsat' for v in vs):
            if status != 'violated':
                status = 'unknown'
                what.append(f"{l['name']}: {vs}")
    d = dict(status=status, paths=nval, paths_ok=nval, reached=['end'], notes=[], lemmas=lemmas,
             solver={'queries': q, 'solver_s': round(secs, 3)}, wall_s=round(time.time() - t0, 2),
             reason='; '.join(what))
    if status == 'violated':
        d['what'] = 'E2 lemma refuted: ' + '; '.join(what)
        d['cex'] = {'lemmas': what}
    return d


# ---- replay ---------------------------------------------------------------------------------------------------
def replay_c14(cex, d):
    import warnings
    warnings.simplefilter('ignore')
    darr, np_ = rp.real()
    fx = dict(d.get('fixed') or {})
    fx.update(cex)
    ob = d.get('ob') or d.get('obligation')
    if ob == 'FIT':
        t, c, s = int(fx['t']), int(fx['c']), int(fx['s']) if fx['usestep'] else None
        fit_frames = rp.real()[0].utils.fit_frames
        step = s if s is not None else c
        valid = t >= 0 and c >= 1 and step >= 1
        try:
            r = fit_frames(t, c, s)
        except ValueError:
            r = 'ValueError'
        if valid:
            K = len([k for k in range(0, max(t, 0) + 2) if k * step + c <= t]) if t < 10 ** 6 else None
            if r == 'ValueError':
                return {'reproduced': True, 'detail': f'fit_frames({t},{c},{s}) raised for valid parameters'}
            if K is not None and (r[0] != K or r[1] != ((K - 1) * step + c if K else 0) or r[2] != t - r[1]):
                return {'reproduced': True, 'detail': f'fit_frames({t},{c},{s}) = {r}, expected count {K}'}
            return {'reproduced': False, 'detail': f'fit_frames({t},{c},{s}) = {r} is right'}
        if r != 'ValueError':
            return {'reproduced': True, 'detail': f'fit_frames({t},{c},{s}) = {r}: parameters outside the documented '
                                                  f'ranges were accepted (no ValueError)'}
        return {'reproduced': False, 'detail': 'raises ValueError'}
    if ob == 'ITERINDICES':
        n = int(fx['n'])
        if n > 10 ** 6:
            return {'reproduced': False, 'skip': True, 'detail': 'too large'}
        c = int(fx['c'])
        s = int(fx['s']) if fx['usestep'] else None
        a = int(fx['a']) if fx['usea'] else None
        b = int(fx['b']) if fx['useb'] else None
        with rp.scratch() as tmp:
            arr = darr.create_array(tmp + '/a', shape=(n,), dtype='int8') if n else darr.create_array(tmp + '/a', shape=(0,), dtype='int8')
            step = s if s is not None else c
            start = a if a is not None else 0
            end = b if b is not None else n
            valid = c >= 1 and step >= 1 and 0 <= start < end <= n
            try:
                frames = list(arr.iterindices(c, stepsize=s, startindex=a, endindex=b, include_remainder=bool(fx['rem'])))
            except ValueError:
                frames = 'ValueError'
            if not valid:
                if frames != 'ValueError':
                    return {'reproduced': True, 'detail': f'iterindices(n={n}, chunklen={c}, stepsize={s}, startindex={a}, '
                                                          f'endindex={b}) yielded {frames[:3]} instead of raising ValueError'}
                return {'reproduced': False, 'detail': 'raises ValueError'}
            if frames == 'ValueError':
                return {'reproduced': True, 'detail': 'ValueError for valid parameters'}
            exp = []
            k = 0
            while start + k * step + c <= end:
                exp.append((start + k * step, start + k * step + c))
                k += 1
            lastend = exp[-1][1] if exp else start
            if fx['rem'] and end > lastend and start + k * step < end:
                exp.append((start + k * step, end))
            if frames != exp:
                return {'reproduced': True, 'detail': f'frames {frames[:5]} != expected {exp[:5]}'}
        return {'reproduced': False, 'detail': 'frames as specified'}
    if ob == 'ITERCHUNKS':
        n, c, a, b = int(fx['n']), int(fx['c']), int(fx['a']), int(fx['b'])
        if n > 10 ** 5:
            return {'reproduced': False, 'skip': True, 'detail': 'too large'}
        atom = tuple(fx.get('atom', ()))
        s = None if fx['tiling'] else int(fx['s'])
        with rp.scratch() as tmp:
            ref = rp.values(np_, n, atom, 'int32', 'big')
            arr = darr.asarray(tmp + '/a', ref)
            step = c if s is None else s
            exp = []
            k = 0
            while a + k * step + c <= b:
                exp.append((a + k * step, a + k * step + c))
                k += 1
            lastend = exp[-1][1] if exp else a
            if fx['rem'] and b > lastend and a + k * step < b:
                exp.append((a + k * step, b))
            try:
                chunks = list(arr.iterchunks(c, stepsize=s, startindex=a, endindex=b, include_remainder=bool(fx['rem'])))
            except Exception as e:
                return {'reproduced': True, 'detail': f'iterchunks raised {e!r}'}
            if len(chunks) != len(exp) or any(ch.tobytes() != ref[x:y].tobytes() for ch, (x, y) in zip(chunks, exp)):
                return {'reproduced': True, 'detail': f'iterchunks(n={n}, chunklen={c}, stepsize={s}, start={a}, end={b}, rem={fx["rem"]}) '
                                                      f'yields {len(chunks)} chunks of lengths {[len(x) for x in chunks][:6]}, expected frames {exp[:6]}'}
            if s is None and fx['rem'] and chunks and np_.concatenate(chunks).tobytes() != ref[a:b].tobytes():
                return {'reproduced': True, 'detail': 'chunks do not concatenate to a[start:end]'}
        return {'reproduced': False, 'detail': 'iterchunks as specified'}
    if ob == 'E2':
        if 't' in fx and 'want' in fx:
            fit_frames = rp.real()[0].utils.fit_frames
            t, c, s = int(fx['t']), int(fx['c']), int(fx['s']) if fx.get('usestep') else None
            step = s if s is not None else c
            K = (t - c) // step + 1
            want = (K, (K - 1) * step + c, t - ((K - 1) * step + c))
            try:
                got = tuple(int(x) for x in fit_frames(t, c, s))
            except Exception as e:
                got = repr(e)
            if got != want:
                return {'reproduced': True, 'detail': f'fit_frames({t}, {c}, {s}) = {got}; exact integer arithmetic gives {want}'}
            return {'reproduced': False, 'detail': f'fit_frames({t}, {c}, {s}) = {got} is right'}
        return {'reproduced': True, 'detail': str(cex)}
    return {'reproduced': False, 'detail': 'no replay for ' + ob}


def obligations(tier):
    thorough = tier == 'thorough'
    T = 900 if thorough else 200
    KM = 8 if thorough else 4
    obs = [
        Ob('FIT', 'h_fitframes', splits=[{}], timeout=T, must_reach=('valid', 'invalid'), replay='replay_c14',
           regions=('stepsize_unchecked_when_chunk_exceeds_total',),
           sym='t, c, s : int (ALL integers), usestep', bounds='unbounded mathematical integers; steplen None or int'),
        Ob('ITERINDICES', 'h_iterindices',
           splits=[dict(KMAX=KM, _must=('valid', 'invalid', 'remainder'))], timeout=T * 2, replay='replay_c14',
           sym='n, chunklen, stepsize, startindex, endindex : int; None defaults and include_remainder symbolic',
           bounds=f'all integers; valid parameter sets restricted to at most {KM} full frames (trip count), invalid ones unrestricted'),
        Ob('ITERCHUNKS', 'h_iterchunks',
           splits=[dict(atom=at, KMAX=3 if not thorough else 5, tiling=tl) for at in [(), (2,)] for tl in (True, False)],
           timeout=T * 2, replay='replay_c14', sym='n, c, a, b, s, rem, probe',
           bounds='real iterchunks on the model array; at most 3 (5) full frames; detached copies; tiling'),
        Ob('E2', 'h_lemmas', splits=[{}], timeout=300, replay='replay_c14', kind='e2',
           sym='t, c, s (fit_frames), fs, fe, step, c, a, j (loop body)',
           bounds='UNBOUNDED (no unrolling): lemmas generated from the AST of utils.fit_frames and Array.iterindices, '
                  'unsat required from z3 4.8.12, z3 5.1 and cvc5 1.0.3'),
    ]
    return obs


def conformance(tier):
    from ..conformance import scenarios
    r = scenarios.run(['interleave'])
    nval, bad = _validate_translator()       # E2 translator vs the real fit_frames on the repository's test triples + a grid
    r['scenarios'] += nval
    r['mismatches'] += bad
    r['names'] = r.get('names', []) + [f'{nval} inputs through real fit_frames and its SMT encoding']
    return r
