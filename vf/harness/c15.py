"""C15 - copy() and archive() produce faithful, independent replicas."""
from ..runner import Ob
from .common import *
from .. import replay as rp
from .c03 import mk_input, dt_of, ASSUMPTIONS as _A
from .c04 import lens_of, RA, check_handle_ragged

PROPERTY = 'C15'
ASSUMPTIONS = _A + ['N-tar: tarfile + lzma/gzip/bz2 reproduce bytes on extraction; the model records (archive path, '
                    'compression, arcname, snapshot of the tree); the replay creates and extracts a real archive']
D = loader.load(env=True, stub_readme=True)
np = symnp
MUTATIONS = ['none', 'append-src', 'append-copy', 'truncate-src', 'truncate-copy', 'delete-src', 'delete-copy']


def array_view(w, path, numtype, gt, atom, n, rows, probe, what):
    a = D.array.Array(path)
    if a.dtype.name != numtype or a.dtype.gt != gt:
        raise Violation(f'{what}: dtype {a.dtype!r} differs', want=(numtype, gt))
    if tuple(a.shape[1:]) != tuple(atom) or len(a) != n:
        raise Violation(f'{what}: shape differs', got=a.shape)
    if not seq_equal(read_all(a), rows, probe):
        raise Violation(f'{what}: contents differ', got=repr(read_all(a)), want=repr(rows))
    try:
        decode_array(w, path)
    except DecodeError as e:
        raise Violation(f'{what}: on-disk format ill-formed: {e}')
    return a


def h_copy(n: int, c: int, k: int, probe: int, numtype='int32', bo='big', atom=(), dtypearg=None,
           withmeta=False, mutation='none', usechunklen=True, F=2, _gate=None, _small=False):
    assume(0 <= n <= BIG and 0 <= k <= BIG)
    small(_small, n, c, k)
    if usechunklen:
        assume(1 <= c <= BIG and n <= F * c)
    else:
        assume(c == 0 and n <= F * ((80 * 1024 ** 2) // (symnp._prod(atom) * ITEMSIZE[numtype])))
    w = new_world()
    md = {'a': {'b': [1, 2, {'c': None}]}, 'z': 'é'} if withmeta else None
    put_array(D, w, '/w/src', n, numtype, bo, atom, metadata=md)
    src = D.array.Array('/w/src', accessmode='r+')
    gate(_gate, {})
    try:
        cp = src.copy('/w/cp', dtype=dtypearg, chunklen=c if usechunklen else None, accessmode='r+')
    except Exception as e:
        raise Violation(f'copy raised {type(e).__name__}', msg=holes.symstr(e))
    ename = numtype if dtypearg is None else dtypearg
    egt = gt_of(numtype, bo) if dtypearg is None else gt_of(dtypearg, 'little' if symnp.NATIVE == '<' else 'big')
    orig = Seq.of(('orig',), n)
    cref = orig if ename == numtype else Seq.of(('cast', ename, ('orig',)), n)
    array_view(w, '/w/cp', ename, egt, atom, n, cref, probe, 'copy')
    if cp.dtype.name != ename or cp.dtype.gt != egt:
        raise Violation('returned copy handle has another dtype')
    m1 = loader._mapping_dict(cp.metadata)
    if m1 != (md or {}):
        raise Violation('metadata of the copy differ', got=m1)
    if (w.lookup('/w/cp/metadata.json') is None) != (w.lookup('/w/src/metadata.json') is None):
        raise Violation('the copy has a metadata.json where the source has none (or the reverse)')
    array_view(w, '/w/src', numtype, gt_of(numtype, bo), atom, n, orig, probe, 'source after copy')
    # independence
    sref, sn = orig, n
    cn = n
    if mutation == 'append-src':
        obj, r = mk_input('same', k, atom, numtype, bo, 7)
        src.append(obj)
        sref, sn = orig.concat(r), n + k
    elif mutation == 'append-copy':
        obj, r = mk_input('same', k, atom, ename, label(egt), 7)
        cp.append(obj)
        cref, cn = cref.concat(r), n + k
    elif mutation == 'truncate-src':
        assume(n >= 1)
        D.array.truncate_array(src, 0)
        sref, sn = Seq(), 0
    elif mutation == 'truncate-copy':
        assume(n >= 1)
        D.array.truncate_array(cp, 0)
        cref, cn = Seq(), 0
    elif mutation == 'delete-src':
        D.array.delete_array(src)
    elif mutation == 'delete-copy':
        D.array.delete_array(cp)
    if mutation != 'delete-src':
        array_view(w, '/w/src', numtype, gt_of(numtype, bo), atom, sn, sref, probe, 'source after ' + mutation)
    elif w.lookup('/w/src') is not None:
        raise Violation('deleted source still exists')
    if mutation != 'delete-copy':
        a = array_view(w, '/w/cp', ename, egt, atom, cn, cref, probe, 'copy after ' + mutation)
        if loader._mapping_dict(a.metadata) != (md or {}):
            raise Violation('metadata of the copy changed')
    elif w.lookup('/w/cp') is not None:
        raise Violation('deleted copy still exists')
    reach('end')


def h_rcopy(l1: int, l2: int, l3: int, k: int, q: int, probe: int, K=1, numtype='float64', bo='little',
            atom=(), dtypearg=None, withmeta=False, mutation='none', _gate=None, _small=False):
    lens = lens_of(K, l1, l2, l3)
    assume(0 <= k <= RBIG)
    for l in lens:
        assume(l <= 1024 ** 2)      # every subarray fits one default creation chunk
    small(_small, k, *lens)
    w = new_world()
    md = {'a': [1, {'b': None}]} if withmeta else None
    model, N = put_ragged(D, w, '/w/src', lens, numtype, bo, atom, metadata=md)
    src = RA.RaggedArray('/w/src', accessmode='r+')
    before_parent = set(w.lookup('/w').entries.keys())
    try:
        cp = src.copy('/w/cp', dtype=dtypearg, accessmode='r+')
    except Exception as e:
        leftover = set(w.lookup('/w').entries.keys()) - before_parent
        raise Violation(f'ragged copy raised {type(e).__name__}', msg=holes.symstr(e),
                        leftover=sorted(leftover))
    ename = numtype if dtypearg is None else dtypearg
    egt = gt_of(numtype, bo) if dtypearg is None else gt_of(dtypearg, 'little' if symnp.NATIVE == '<' else 'big')
    cmodel = model if ename == numtype else [m.map_src(lambda s: ('cast', ename, s)) for m in model]
    check_handle_ragged(RA.RaggedArray('/w/cp'), cmodel, ename, egt, atom, q, probe, 'ragged copy')
    if loader._mapping_dict(cp.metadata) != (md or {}):
        raise Violation('metadata of the ragged copy differ')
    if (w.lookup('/w/cp/metadata.json') is None) != (w.lookup('/w/src/metadata.json') is None):
        raise Violation('the ragged copy has a metadata.json where the source has none (or the reverse)')
    try:
        decode_ragged(w, '/w/cp')
    except DecodeError as e:
        raise Violation(f'ragged copy ill-formed on disk: {e}')
    if mutation == 'append-src':
        obj, r = mk_input('same', k, atom, numtype, bo, 7)
        src.append(obj)
        model = model + [r]
    elif mutation == 'append-copy':
        obj, r = mk_input('same', k, atom, ename, label(egt), 7)
        cp.append(obj)
        cmodel = cmodel + [r]
    elif mutation == 'delete-src':
        RA.delete_raggedarray(src)
    elif mutation == 'delete-copy':
        RA.delete_raggedarray(cp)
    if mutation != 'delete-src':
        check_handle_ragged(RA.RaggedArray('/w/src'), model, numtype, gt_of(numtype, bo), atom, q, probe,
                            'ragged source after ' + mutation)
    if mutation != 'delete-copy':
        check_handle_ragged(RA.RaggedArray('/w/cp'), cmodel, ename, egt, atom, q, probe,
                            'ragged copy after ' + mutation)
    reach('end')


def h_archive(n: int, exists: bool, overwrite: bool, probe: int, kind='array', comp='xz',
              givenpath=False, _gate=None, _small=False):
    assume(0 <= n <= RBIG)
    w = new_world()
    if kind == 'array':
        put_array(D, w, '/w/dat.x', n, 'int16', 'little', (2,), metadata={'m': 1})
        h = D.array.Array('/w/dat.x')
    else:
        put_ragged(D, w, '/w/dat.x', [n], 'int16', 'little', ())
        h = RA.RaggedArray('/w/dat.x')
    apath = '/w/out/my.tar' if givenpath else f'/w/dat.x.tar.{comp}'
    if givenpath:
        w.mkdirs('/w/out')
    if exists:
        f = File()
        f.text = 'precious'
        f.bin = None
        w.put(apath, f)
    tree_before = snap(w.lookup('/w/dat.x'))
    valid = comp in ('xz', 'gz', 'bz2')
    try:
        ret = h.archive(filepath=apath if givenpath else None, compressiontype=comp, overwrite=overwrite)
        raised = None
    except Exception as e:
        raised = e
    if not snap_same(tree_before, snap(w.lookup('/w/dat.x')), probe):
        raise Violation('archive() changed the array directory')
    node = w.lookup(apath)
    if not valid:
        if not isinstance(raised, ValueError):
            raise Violation('unsupported compression type not refused with ValueError')
        if exists and node.text != 'precious':
            raise Violation('existing file damaged by a refused archive call')
        reach('badcomp')
    elif exists and not overwrite:
        if raised is None:
            raise Violation('archive() replaced an existing archive without overwrite=True')
        if node is None or node.text != 'precious':
            raise Violation('existing archive damaged although overwrite=False')
        reach('refused')
    else:
        if raised is not None:
            raise Violation(f'archive() raised {type(raised).__name__}', msg=holes.symstr(raised))
        if str(ret) != apath:
            raise Violation('archive() returned another path', got=str(ret))
        if node is None or not isinstance(node.text, tuple) or node.text[0] != 'tar':
            raise Violation('no archive was written at the expected path')
        _, c, members = node.text
        if c != comp:
            raise Violation('archive written with another compression type', got=c)
        if len(members) != 1 or members[0][0] != 'dat.x':
            raise Violation('archive does not hold the array directory under its own name',
                            got=[m[0] for m in members])
        if members[0][1] != symfs._snapshot(w.lookup('/w/dat.x')):
            raise Violation('archived tree differs from the array directory')
        reach('written')
    reach('end')


# ---- replay ----------------------------------------------------------------------------------------------
def replay_c15(cex, d):
    import os
    import json
    import tarfile
    import hashlib
    import warnings
    warnings.simplefilter('ignore')
    darr, np_ = rp.real()
    fx = dict(d.get('fixed') or {})
    fx.update(cex)
    ob = d.get('ob') or d.get('obligation')
    probs = []
    with rp.scratch() as tmp:
        if ob.startswith('COPY-array'):
            n, k = int(fx['n']), int(fx['k'])
            if max(n, k) > 5000:
                return {'reproduced': False, 'skip': True, 'detail': 'too large'}
            atom = tuple(fx['atom'])
            md = {'a': {'b': [1, 2, {'c': None}]}, 'z': 'é'} if fx['withmeta'] else None
            orig = rp.values(np_, n, atom, fx['numtype'], fx['bo'])
            src = darr.asarray(tmp + '/src', orig, metadata=md, accessmode='r+') if n else darr.create_array(
                tmp + '/src', shape=(0,) + atom, dtype=orig.dtype, metadata=md)
            try:
                cp = src.copy(tmp + '/cp', dtype=fx['dtypearg'], chunklen=int(fx['c']) if fx['usechunklen'] else None,
                              accessmode='r+')
            except Exception as e:
                return {'reproduced': True, 'detail': f'copy(n={n}, dtype={fx["dtypearg"]}) raised {type(e).__name__}: {e}'}
            ref = orig.astype(fx['dtypearg']) if fx['dtypearg'] else orig
            got = darr.Array(tmp + '/cp')[:]
            if got.dtype != ref.dtype:
                probs.append(f'copy dtype {got.dtype.str} != {ref.dtype.str}')
            elif got.shape != ref.shape or got.tobytes() != ref.tobytes():
                probs.append('copy values differ')
            if dict(cp.metadata) != (md or {}):
                probs.append('metadata differ')
            if os.path.exists(str(cp.path) + '/metadata.json') != os.path.exists(str(src.path) + '/metadata.json'):
                probs.append('metadata.json exists in only one of source and copy')
            mut = fx['mutation']
            sref, cref = orig, ref
            if mut == 'append-src':
                x = rp.values(np_, k, atom, fx['numtype'], fx['bo'], 99)
                src.append(x)
                sref = np_.concatenate([orig, x])
            elif mut == 'append-copy':
                x = rp.values(np_, k, atom, ref.dtype.name, 'little', 99).astype(ref.dtype)
                cp.append(x)
                cref = np_.concatenate([ref, x])
            elif mut == 'truncate-src':
                darr.truncate_array(src, 0)
                sref = orig[:0]
            elif mut == 'truncate-copy':
                darr.truncate_array(cp, 0)
                cref = ref[:0]
            elif mut == 'delete-src':
                darr.delete_array(src)
            elif mut == 'delete-copy':
                darr.delete_array(cp)
            if mut != 'delete-src' and darr.Array(tmp + '/src')[:].tobytes() != sref.tobytes():
                probs.append(f'source changed by {mut}')
            if mut != 'delete-copy' and darr.Array(tmp + '/cp')[:].tobytes() != cref.tobytes():
                probs.append(f'copy changed by {mut}')
        elif ob.startswith('COPY-ragged'):
            K = int(fx['K'])
            lens = [int(fx[f'l{i + 1}']) for i in range(K)]
            if max(lens + [0]) > 3000:
                return {'reproduced': False, 'skip': True, 'detail': 'too large'}
            atom = tuple(fx['atom'])
            dt = np_.dtype(fx['numtype']).newbyteorder('<' if fx['bo'] == 'little' else '>')
            subs = [rp.values(np_, l, atom, fx['numtype'], fx['bo'], 1 + 7 * i) for i, l in enumerate(lens)]
            md = {'a': [1, {'b': None}]} if fx['withmeta'] else None
            if subs:
                src = darr.asraggedarray(tmp + '/src', subs, dtype=dt, metadata=md, accessmode='r+')
            else:
                src = darr.create_raggedarray(tmp + '/src', atom=atom, dtype=dt, metadata=md, accessmode='r+')
            try:
                cp = src.copy(tmp + '/cp', dtype=fx['dtypearg'], accessmode='r+')
            except BaseException as e:
                return {'reproduced': True, 'detail': f'ragged copy (lens={lens}) raised {type(e).__name__}: {e}; '
                                                      f'left behind: {sorted(os.listdir(tmp))}'}
            want = [s.astype(fx['dtypearg']) if fx['dtypearg'] else s for s in subs]
            c2 = darr.RaggedArray(tmp + '/cp')
            if len(c2) != len(want):
                probs.append('copy has another number of subarrays')
            else:
                for i, wv in enumerate(want):
                    g = c2[i]
                    if g.dtype != wv.dtype or g.shape != wv.shape or g.tobytes() != wv.tobytes():
                        probs.append(f'subarray {i} differs (dtype {g.dtype.str} vs {wv.dtype.str})')
                        break
            if dict(cp.metadata) != (md or {}):
                probs.append('metadata differ')
            if os.path.exists(str(cp.path) + '/metadata.json') != os.path.exists(str(src.path) + '/metadata.json'):
                probs.append('metadata.json exists in only one of source and copy')
        else:
            n = min(int(fx['n']), 2000)
            p = tmp + '/dat.x'
            if fx['kind'] == 'array':
                h = darr.asarray(p, rp.values(np_, n, (2,), 'int16'), metadata={'m': 1}) if n else darr.create_array(p, shape=(0, 2), dtype='int16', metadata={'m': 1})
            else:
                h = darr.asraggedarray(p, [rp.values(np_, n, (), 'int16')])
            comp = fx['comp']
            apath = tmp + '/out/my.tar' if fx['givenpath'] else f'{p}.tar.{comp}'
            os.makedirs(tmp + '/out', exist_ok=True)
            if fx['exists']:
                open(apath, 'w').write('precious')

            def tree(q):
                out = {}
                for dp, dns, fns in os.walk(q):
                    for fn in fns:
                        out[os.path.relpath(os.path.join(dp, fn), q)] = hashlib.sha256(open(os.path.join(dp, fn), 'rb').read()).hexdigest()
                return out
            before = tree(p)
            try:
                ret = h.archive(filepath=apath if fx['givenpath'] else None, compressiontype=comp, overwrite=fx['overwrite'])
                raised = None
            except Exception as e:
                raised = e
            if tree(p) != before:
                probs.append('archive changed the array directory')
            valid = comp in ('xz', 'gz', 'bz2')
            if not valid:
                if not isinstance(raised, ValueError):
                    probs.append('bad compression type not refused with ValueError')
            elif fx['exists'] and not fx['overwrite']:
                if raised is None or open(apath).read() != 'precious':
                    probs.append('existing archive replaced/damaged without overwrite')
            else:
                if raised is not None:
                    probs.append(f'archive raised {raised!r}')
                else:
                    with tarfile.open(apath, 'r:' + comp) as tf:
                        tf.extractall(tmp + '/ex', filter='data')
                    if tree(tmp + '/ex/dat.x') != before:
                        probs.append('extracted tree differs from the array directory')
                    try:
                        ex = darr.open(tmp + '/ex/dat.x')
                    except Exception as e:
                        probs.append(f'extracted array does not open: {e!r}')
    if probs:
        return {'reproduced': True, 'detail': '; '.join(probs[:4])}
    return {'reproduced': False, 'detail': 'real darr behaves as required'}


def obligations(tier):
    thorough = tier == 'thorough'
    T = 900 if thorough else 240
    dts = [None] + (NUMTYPES if thorough else ['int32', 'float16', 'float64', 'complex64'])
    obs = []
    csplits = []
    for i, da in enumerate(dts):
        for (nt, bo, at) in ([('int32', 'big', ()), ('float64', 'little', (2,))] if thorough else
                             [('int32', 'big', ()) if i % 2 == 0 else ('float64', 'little', (2,))]):
            for ucl in ((True, False) if thorough or da is None else (True,)):
                csplits.append(dict(numtype=nt, bo=bo, atom=at, dtypearg=da, withmeta=(i % 2 == 0), mutation='none',
                                    usechunklen=ucl, F=3 if thorough else 2))
    for i, mu in enumerate(MUTATIONS[1:]):
        csplits.append(dict(numtype='int16', bo='big' if i % 2 else 'little', atom=(2,) if i % 2 else (),
                            dtypearg=None if i % 2 else 'float32', withmeta=True, mutation=mu, usechunklen=True, F=2))
    obs.append(Ob('COPY-array', 'h_copy', splits=csplits, timeout=T, replay='replay_c15',
                  sym='n, c (chunklen), k, probe',
                  bounds='n >= 0 unbounded (length-0 source is a value), chunklen None or c >= 1 with n <= F*c, target dtype '
                         'None / several; nested metadata; one post-copy mutation (append / truncate / delete) on either side'))
    rsplits = []
    for K in ((0, 1, 2, 3) if thorough else (0, 1, 2)):
        for i, da in enumerate((None, 'float32', 'int64') if thorough else (None, 'float32')):
            rsplits.append(dict(K=K, numtype='float64' if i % 2 == 0 else 'int16', bo='little' if K % 2 else 'big',
                                atom=() if K != 2 else (2,), dtypearg=da, withmeta=(K % 2 == 1), mutation='none'))
    for mu in ('append-src', 'append-copy', 'delete-src', 'delete-copy'):
        rsplits.append(dict(K=1, numtype='float64', bo='little', atom=(), dtypearg=None, withmeta=True, mutation=mu))
    obs.append(Ob('COPY-ragged', 'h_rcopy', splits=rsplits, timeout=T * 2, replay='replay_c15',
                  sym='l1..lK, k, q, probe',
                  bounds='K in 0..2/3 subarrays (a ragged array with NO subarrays is a value of the split), lengths 0..2^20 (one creation chunk per subarray)'))
    asplits = [dict(kind=kd, comp=cp, givenpath=gp) for kd in ('array', 'ragged')
               for cp in ('xz', 'gz', 'bz2', 'zip') for gp in (False, True)]
    obs.append(Ob('ARCHIVE', 'h_archive', splits=asplits, timeout=T, replay='replay_c15',
                  sym='n, exists, overwrite, probe',
                  bounds='what Darr decides: default name, mode x:/w: from overwrite, xz/gz/bz2 accepted and others refused, '
                         'arcname = directory name, refusal when the archive exists; outside: byte identity after extraction '
                         '(N-tar; exercised once per counterexample in replay)'))
    return obs


def conformance(tier):
    from ..conformance import scenarios
    return scenarios.run(['foreign', 'copying'])
