"""C13 - metadata behaves as a dictionary persisted to metadata.json."""
from ..runner import Ob
from .common import *
from .. import replay as rp
from .c03 import ASSUMPTIONS as _A
from .c04 import RA

PROPERTY = 'C13'
ASSUMPTIONS = _A + ["N-json: json round-trips JSON-representable structures (tuple -> list, keys -> str), "
                    "dumps raises TypeError for others before the file is opened; NaN / non-ASCII rendering "
                    "is json's own (outside)"]
D = loader.load(env=True, stub_readme=True)
np = symnp
KEYS = ['a', 'b', 'c']


class Unserialisable:
    pass


def mk_value(kind, iv):
    """(value handed to Darr, its JSON round trip)"""
    if kind == 'int':
        return iv, iv
    if kind == 'float':
        return 2.5, 2.5
    if kind == 'str':
        return 'text é', 'text é'
    if kind == 'bool':
        return True, True
    if kind == 'none':
        return None, None
    if kind == 'list':
        return (1, [iv, 'x'], None), [1, [iv, 'x'], None]
    if kind == 'dict':
        return {'n': {'m': iv}, 'l': (1, 2)}, {'n': {'m': iv}, 'l': [1, 2]}
    if kind == 'npint':
        return np.int64(iv), iv
    if kind == 'npfloat':
        return np.float64(1.5), 1.5
    if kind == 'ndarray':
        a = np.ndarray(np.SymDType('int32'), (2,), Seq.of(('md',), 2))
        return a, a.tolist()
    if kind == 'ndarray1':
        a = np.ndarray(np.SymDType('int32'), (1,), Seq.of(('md1',), 1))      # ONE element, one dimension: a list
        return a, a.tolist()
    if kind == 'bytes':
        return b'abc', 'abc'
    if kind == 'bad':
        return Unserialisable(), None
    raise AssertionError(kind)


def key_of(sel):
    for i, k in enumerate(KEYS):
        if sel == i:
            return k
    return 'zz'        # a key that is never present


def jsame(a, b):
    """JSON equality: 1, 1.0 and true are three different values (Python's == conflates them)"""
    if isinstance(a, bool) or isinstance(b, bool):
        return isinstance(a, bool) and isinstance(b, bool) and a == b
    if isinstance(a, dict) or isinstance(b, dict):
        if not (isinstance(a, dict) and isinstance(b, dict)) or set(a.keys()) != set(b.keys()):
            return False
        for k in a:
            if not jsame(a[k], b[k]):
                return False
        return True
    if isinstance(a, list) or isinstance(b, list):
        if not (isinstance(a, list) and isinstance(b, list)) or len(a) != len(b):
            return False
        for x, y in zip(a, b):
            if not jsame(x, y):
                return False
        return True
    if isinstance(a, float) != isinstance(b, float):
        return False
    return a == b


def check_view(md, model, what):
    d = loader._mapping_dict(md)
    if not jsame(d, model):
        raise Violation(f'{what}: dict(metadata) differs from the model', got=d, want=model)
    if len(md) != len(model):
        raise Violation(f'{what}: len differs')
    if sorted(md.keys()) != sorted(model.keys()):
        raise Violation(f'{what}: keys differ')
    if sorted(k for k, v in md.items()) != sorted(model.keys()):
        raise Violation(f'{what}: items differ')
    if len(list(md.values())) != len(model):
        raise Violation(f'{what}: values differ')
    for k in KEYS + ['zz']:
        if (k in md) != (k in model):
            raise Violation(f'{what}: `in` differs for {k}')
        if md.get(k) != model.get(k):
            raise Violation(f'{what}: get differs for {k}')
        if md.get(k, 7) != model.get(k, 7):
            raise Violation(f'{what}: get with default differs for {k}')
        if k in model:
            if not jsame(md[k], model[k]):
                raise Violation(f'{what}: [] differs for {k}')
        else:
            try:
                md[k]
                raise Violation(f'{what}: [] of a missing key did not raise')
            except KeyError:
                pass


def check_state(w, path, h, cls, model, what):
    check_view(h.metadata, model, what + ' live')
    fresh = cls(path)
    check_view(fresh.metadata, model, what + ' fresh')
    node = w.lookup(path + '/metadata.json')
    if model:
        if node is None:
            raise Violation(f'{what}: metadata.json missing although metadata are non-empty')
        if not isinstance(node.text, JsonDoc) or not jsame(node.text.obj, model):
            raise Violation(f'{what}: metadata.json content differs from the model')
    elif node is not None:
        raise Violation(f'{what}: metadata.json exists although there are no metadata',
                        content=repr(node.text))
    no_open_handles(w, what)


def apply_op(md, model, op, k, k2, val, jval, dflt):
    """performs op on the real MetaData object and on the model dict; returns label"""
    if op == 'setitem':
        md[k] = val
        model[k] = jval
    elif op == 'update':
        md.update({k: val, k2: 'second'})
        model.update({k: jval, k2: 'second'})
    elif op == 'update-kw':
        md.update(a=val)
        model.update(a=jval)
    elif op == 'update-empty':
        md.update({})
    elif op in ('pop', 'del'):
        try:
            if op == 'pop':
                got = md.pop(k)
            else:
                del md[k]
                got = model.get(k)
            gerr = None
        except Exception as e:
            gerr = e
        if k in model:
            if gerr is not None:
                raise Violation(f'{op} of a present key raised {type(gerr).__name__}')
            want = model.pop(k)
            if got != want:
                raise Violation(f'{op} returned a different value')
        else:
            if not isinstance(gerr, KeyError):
                raise Violation(f'{op} of a missing key must raise KeyError',
                                got=type(gerr).__name__ if gerr else 'nothing')
    elif op == 'pop-default':
        try:
            got = md.pop(k, dflt)
        except Exception as e:
            raise Violation(f'pop with a default raised {type(e).__name__}', msg=holes.symstr(e))
        want = model.pop(k, dflt)
        if got != want:
            raise Violation('pop with default returned a different value')
    elif op in ('pop-default-none', 'pop-default-true', 'pop-default-zero'):
        # the default IS (the same object as) a value that may be stored under the key
        dv = {'pop-default-none': None, 'pop-default-true': True, 'pop-default-zero': 0}[op]
        try:
            got = md.pop(k, dv)
        except Exception as e:
            raise Violation(f'pop with a default raised {type(e).__name__}', msg=holes.symstr(e))
        want = model.pop(k, dv)
        if got != want:
            raise Violation('pop with default returned a different value')
    elif op == 'popitem':
        if model:
            try:
                kk, vv = md.popitem()
            except Exception as e:
                raise Violation(f'popitem on non-empty metadata raised {type(e).__name__}')
            if kk not in model or model[kk] != vv:
                raise Violation('popitem returned an item that is not in the metadata')
            del model[kk]
        else:
            try:
                md.popitem()
                raise Violation('popitem on empty metadata did not raise')
            except KeyError:
                pass
    else:
        raise AssertionError(op)


def h_meta(s1: int, s2: int, t1: int, t2: int, iv: int, jv: int, dflt: int, probe: int,
           kind='array', start=0, ops=('setitem',), vkinds=('int',), _gate=None, _small=False):
    """start: 0 no metadata file, 1 {'a': jv}, 2 {'a': jv, 'c': [1]}; ops applied in order,
    op i uses key selector s_i (0..3: 'a','b','c', missing) and value kind vkinds[i]."""
    assume(0 <= s1 <= 3 and 0 <= s2 <= 3 and 0 <= t1 <= 3 and 0 <= t2 <= 3)
    w = new_world()
    model = {}
    if start >= 1:
        model['a'] = jv
    if start >= 2:
        model['c'] = [1]
    if start == 3:
        model = {'a': None, 'b': True, 'c': 0}
    path = '/w/x'
    if kind == 'array':
        put_array(D, w, path, 3, 'int32', 'little', (), metadata=dict(model) if model else None)
        cls = D.array.Array
    else:
        put_ragged(D, w, path, [2], 'int32', 'little', (), metadata=dict(model) if model else None)
        cls = RA.RaggedArray
    h = cls(path, accessmode='r+')
    check_state(w, path, h, cls, model, 'initial')
    sels = [(s1, t1), (s2, t2)]
    for i in range(2):
        if i >= len(ops) or ops[i] != 'update':
            assume(sels[i][1] == 0)          # second key only matters for update({k:.., k2:..})
        if i >= len(ops) or ops[i] in ('update-kw', 'update-empty', 'popitem'):
            assume(sels[i][0] == 0)
    flags = {'pop_default_no_file': False, 'update_empty_no_file': False}
    for i, op in enumerate(ops):
        s, t = sels[i]
        k, k2 = key_of(s), key_of(t)
        val, jval = mk_value(vkinds[i % len(vkinds)], iv)
        if op == 'pop-default' and not model:
            flags['pop_default_no_file'] = True
        if op == 'update-empty' and not model:
            flags['update_empty_no_file'] = True
        gate(_gate, flags) if _gate and _gate[0] == 'exclude' else None
        if vkinds[i % len(vkinds)] == 'bad' and op in ('setitem', 'update', 'update-kw'):
            before = snap(w.lookup(path))
            try:
                if op == 'setitem':
                    h.metadata[k] = val
                else:
                    h.metadata.update({k: val})
                raise Violation('a non-serialisable value was accepted')
            except TypeError:
                pass
            except Violation:
                raise
            except Exception as e:
                raise Violation(f'non-serialisable value raised {type(e).__name__}, not TypeError')
            if not snap_same(before, snap(w.lookup(path)), probe):
                raise Violation('a rejected (non-serialisable) update changed files')
            reach('rejected')
        else:
            apply_op(h.metadata, model, op, k, k2, val, jval, dflt)
        check_state(w, path, h, cls, model, f'after op {i} ({op})')
    gate(_gate, flags)
    reach('end')


def h_created(k: int, jv: int, probe: int, creator='asarray', mdarg='empty', over=False, _gate=None, _small=False):
    """the start state itself: an array just CREATED (or copied) with metadata None / {} / {'a': jv}, possibly over a
    previous occupant that had metadata, has metadata.json exactly when its metadata are non-empty"""
    assume(1 <= k <= 1000)
    w = new_world()
    w.mkdirs('/w')
    model = {'a': jv} if mdarg == 'one' else {}
    arg = None if mdarg == 'none' else dict(model)
    ragged = 'ragged' in creator.lower()
    cls = RA.RaggedArray if ragged else D.array.Array
    if over:
        if ragged:
            put_ragged(D, w, '/w/x', [2], 'int32', 'little', (), metadata={'old': 1})
        else:
            put_array(D, w, '/w/x', 3, 'int32', 'little', (), metadata={'old': 1})
    x = symnp.ndarray(symnp.SymDType('int32', gt_of('int32', 'little')), (k,), Seq.of(('new', 1), k))
    try:
        if creator == 'asarray':
            h = D.array.asarray('/w/x', x, metadata=arg, overwrite=over, accessmode='r+')
        elif creator == 'create_array':
            h = D.array.create_array('/w/x', shape=(k,), dtype='int32', metadata=arg, overwrite=over, accessmode='r+')
        elif creator == 'asraggedarray':
            h = RA.asraggedarray('/w/x', [x], metadata=arg, overwrite=over, accessmode='r+')
        elif creator == 'create_raggedarray':
            h = RA.create_raggedarray('/w/x', atom=(), dtype='int32', metadata=arg, overwrite=over, accessmode='r+')
        else:
            if ragged:
                put_ragged(D, w, '/w/src', [2], 'int32', 'little', (), metadata=dict(model) if model else None)
            else:
                put_array(D, w, '/w/src', 3, 'int32', 'little', (), metadata=dict(model) if model else None)
            h = cls('/w/src').copy('/w/x', overwrite=over, accessmode='r+')
    except Exception as e:
        raise Violation(f'{creator}(metadata={mdarg}) raised {type(e).__name__}', msg=holes.symstr(e))
    check_state(w, '/w/x', h, cls, model, f'after {creator}(metadata={mdarg}, overwrite={over})')
    reach('end')


def replay_created(cex, d):
    import os
    import warnings
    warnings.simplefilter('ignore')
    darr, np_ = rp.real()
    fx = dict(d.get('fixed') or {})
    fx.update(cex)
    creator, mdarg, over = fx['creator'], fx['mdarg'], bool(fx.get('over'))
    model = {'a': int(fx['jv'])} if mdarg == 'one' else {}
    arg = None if mdarg == 'none' else dict(model)
    ragged = 'ragged' in creator.lower()
    k = min(int(fx['k']), 5)
    probs = []
    with rp.scratch() as tmp:
        p = tmp + '/x'
        x = np_.arange(k, dtype='int32')
        if over:
            if ragged:
                darr.asraggedarray(p, [x], metadata={'old': 1})
            else:
                darr.asarray(p, x, metadata={'old': 1})
        if creator == 'asarray':
            h = darr.asarray(p, x, metadata=arg, overwrite=over)
        elif creator == 'create_array':
            h = darr.create_array(p, shape=(k,), dtype='int32', metadata=arg, overwrite=over)
        elif creator == 'asraggedarray':
            h = darr.asraggedarray(p, [x], metadata=arg, overwrite=over)
        elif creator == 'create_raggedarray':
            h = darr.create_raggedarray(p, atom=(), dtype='int32', metadata=arg, overwrite=over)
        else:
            src = (darr.asraggedarray(tmp + '/src', [x], metadata=arg) if ragged
                   else darr.asarray(tmp + '/src', x, metadata=arg))
            h = src.copy(p, overwrite=over)
        exists = os.path.exists(p + '/metadata.json')
        if exists != bool(model):
            probs.append(f'{creator}(metadata={arg!r}, overwrite={over}): metadata.json exists={exists}, '
                         f'metadata are {"non-" if model else ""}empty')
        if dict(h.metadata) != model:
            probs.append(f'metadata read back as {dict(h.metadata)!r}, expected {model!r}')
    if probs:
        return {'reproduced': True, 'detail': '; '.join(probs)}
    return {'reproduced': False, 'detail': 'metadata.json exists exactly when the metadata are non-empty'}


# ---- replay --------------------------------------------------------------------------------------------
def replay_meta(cex, d):
    import os
    import json
    import warnings
    warnings.simplefilter('ignore')
    darr, np_ = rp.real()
    fx = dict(d.get('fixed') or {})
    fx.update(cex)
    iv, jv, dflt = int(fx['iv']), int(fx['jv']), int(fx['dflt'])
    model = {}
    if fx['start'] >= 1:
        model['a'] = jv
    if fx['start'] >= 2:
        model['c'] = [1]
    if fx['start'] == 3:
        model = {'a': None, 'b': True, 'c': 0}

    def val(kind):
        return {'int': (iv, iv), 'float': (2.5, 2.5), 'str': ('text é', 'text é'), 'bool': (True, True),
                'none': (None, None), 'list': ((1, [iv, 'x'], None), [1, [iv, 'x'], None]),
                'dict': ({'n': {'m': iv}, 'l': (1, 2)}, {'n': {'m': iv}, 'l': [1, 2]}),
                'npint': (np_.int64(iv), iv), 'npfloat': (np_.float64(1.5), 1.5),
                'ndarray': (np_.arange(2, dtype='int32'), [0, 1]), 'ndarray1': (np_.array([7], dtype='int32'), [7]),
                'bytes': (b'abc', 'abc'),
                'bad': (object(), None)}[kind]
    probs = []
    with rp.scratch() as tmp:
        p = tmp + '/x'
        if fx['kind'] == 'array':
            h = darr.asarray(p, [1, 2, 3], metadata=dict(model) if model else None, accessmode='r+')
            cls = darr.Array
        else:
            h = darr.asraggedarray(p, [[1, 2]], metadata=dict(model) if model else None, accessmode='r+')
            cls = darr.RaggedArray

        def check(tag):
            for nm, mk in (('live', lambda: h), ('fresh', lambda: cls(p))):
                try:
                    got = dict(mk().metadata)
                except Exception as e:
                    probs.append(f'{tag}: {nm} metadata unreadable: {type(e).__name__}')
                    continue
                if json.dumps(got, sort_keys=True) != json.dumps(model, sort_keys=True):
                    probs.append(f'{tag}: {nm} dict(metadata)={got!r} != model {model!r}')
            ex = os.path.exists(p + '/metadata.json')
            if ex != bool(model):
                probs.append(f'{tag}: metadata.json exists={ex} but model={model!r}')
            elif ex:
                try:
                    if json.load(open(p + '/metadata.json')) != model:
                        probs.append(f'{tag}: file content differs')
                except ValueError:
                    probs.append(f'{tag}: metadata.json is no longer valid JSON')
        sels = [(int(fx['s1']), int(fx['t1'])), (int(fx['s2']), int(fx['t2']))]
        keyof = lambda s: KEYS[s] if s < 3 else 'zz'
        for i, op in enumerate(fx['ops']):
            k, k2 = keyof(sels[i][0]), keyof(sels[i][1])
            v, jvv = val(fx['vkinds'][i % len(fx['vkinds'])])
            md = h.metadata
            try:
                if fx['vkinds'][i % len(fx['vkinds'])] == 'bad' and op in ('setitem', 'update', 'update-kw'):
                    try:
                        md.update({k: v})
                        probs.append('non-serialisable accepted')
                    except TypeError:
                        pass
                    check(f'after rejected op {i}')
                    continue
                elif op.startswith('pop-default-'):
                    dv = {'pop-default-none': None, 'pop-default-true': True, 'pop-default-zero': 0}[op]
                    got = md.pop(k, dv)
                    if got != model.pop(k, dv):
                        probs.append('pop default value differs')
                elif op == 'setitem':
                    md[k] = v
                    model[k] = jvv
                elif op == 'update':
                    md.update({k: v, k2: 'second'})
                    model.update({k: jvv, k2: 'second'})
                elif op == 'update-kw':
                    md.update(a=v)
                    model['a'] = jvv
                elif op == 'update-empty':
                    md.update({})
                elif op in ('pop', 'del'):
                    try:
                        if op == 'pop':
                            md.pop(k)
                        else:
                            del md[k]
                        if k not in model:
                            probs.append(f'{op} of missing key did not raise')
                    except KeyError:
                        if k in model:
                            probs.append(f'{op} of present key raised KeyError')
                    model.pop(k, None)
                elif op == 'pop-default':
                    got = md.pop(k, dflt)
                    if got != model.pop(k, dflt):
                        probs.append('pop default value differs')
                elif op == 'popitem':
                    if model:
                        kk, vv = md.popitem()
                        if model.get(kk) != vv:
                            probs.append('popitem item not in model')
                        model.pop(kk, None)
                    else:
                        try:
                            md.popitem()
                            probs.append('popitem on empty did not raise')
                        except KeyError:
                            pass
            except Exception as e:
                probs.append(f'op {i} {op}({k!r}) with model {model!r} raised {type(e).__name__}: {e}')
                break
            check(f'after op {i} {op}')
    if probs:
        return {'reproduced': True, 'detail': '; '.join(probs[:3])}
    return {'reproduced': False, 'detail': 'real darr agrees with the dict model'}


def obligations(tier):
    thorough = tier == 'thorough'
    T = 600 if thorough else 150
    OPS = ['setitem', 'update', 'update-kw', 'update-empty', 'pop', 'del', 'pop-default', 'popitem']
    VK = ['int', 'float', 'str', 'bool', 'none', 'list', 'dict', 'npint', 'npfloat', 'ndarray', 'bytes']
    splits = []
    # single operations from each start state
    for start in (0, 1, 2):
        for i, op in enumerate(OPS):
            vks = VK if (op == 'setitem' and (thorough or start == 0)) else [VK[(i + start) % len(VK)]]
            for vk in vks:
                splits.append(dict(kind='array' if (i + start) % 3 else 'ragged', start=start, ops=(op,), vkinds=(vk,)))
    # pairs of operations
    pairs = [(a, b) for a in OPS for b in OPS]
    if not thorough:
        pairs = [p for i, p in enumerate(pairs) if i % 3 == 0 or 'pop' in p[0] or p[1] == 'update-empty']
    for i, (a, b) in enumerate(pairs):
        for start in ((0, 1, 2) if thorough else ((i % 3),)):
            splits.append(dict(kind='array' if i % 4 else 'ragged', start=start, ops=(a, b),
                               vkinds=(VK[i % len(VK)], VK[(i * 5 + 1) % len(VK)])))
    obs = [Ob('MD-ops', 'h_meta', splits=splits, timeout=T, replay='replay_meta',
              regions=('pop_default_no_file', 'update_empty_no_file'),
              sym='s1, s2, t1, t2 (key selectors over {a,b,c,missing}), iv, jv, dflt (int payloads), probe',
              bounds='start in {no file, 1 key, 2 keys}; sequences of <= 2 operations over 8 op kinds; keys from a '
                     '3-key space + one never-present key; 11 JSON-representable value kinds with symbolic int payloads'),
           Ob('MD-pop-identical-default', 'h_meta',
              splits=[dict(kind=k, start=3, ops=(op,), vkinds=('int',))
                      for k in ('array', 'ragged') for op in ('pop-default-none', 'pop-default-true', 'pop-default-zero')]
              + [dict(kind='array', start=3, ops=(op, op2), vkinds=('int',))
                 for op in ('pop-default-none', 'pop-default-zero') for op2 in ('pop-default-true', 'popitem')],
              timeout=T, replay='replay_meta', sym='s1, s2 (key selectors), probe',
              bounds="start {'a': None, 'b': True, 'c': 0}; pop(key, default) where the default is the very object that may be stored"),
           Ob('MD-retype', 'h_meta',
              splits=[dict(kind=k, start=st, ops=ops, vkinds=vk)
                      for k in ('array', 'ragged') for st in (1, 2)
                      for (ops, vk) in [(('setitem',), ('bool',)), (('setitem',), ('float',)), (('update',), ('bool',)),
                                        (('setitem', 'setitem'), ('int', 'bool')), (('setitem',), ('ndarray1',)),
                                        (('update-kw',), ('ndarray1',))]],
              timeout=T, replay='replay_meta', sym='s1, s2, t1, iv, jv, probe',
              bounds='re-assigning an EXISTING key (stored value jv symbolic) with a value of another JSON type that may compare '
                     'equal in Python (1 vs true vs 1.0); NumPy arrays holding exactly one element stay lists'),
           Ob('MD-created', 'h_created',
              splits=[dict(creator=c, mdarg=m, over=o)
                      for c in ('asarray', 'create_array', 'asraggedarray', 'create_raggedarray', 'Array.copy', 'RaggedArray.copy')
                      for m in ('none', 'empty', 'one') for o in (False, True)],
              timeout=T, replay='replay_created', sym='k (rows), jv (payload), probe',
              bounds="the start state: each of the 6 creating functions with metadata None / {} / {'a': jv} (for copy: the "
                     "source's metadata), on a free path or with overwrite=True over an occupant that had metadata"),
           Ob('MD-reject', 'h_meta',
              splits=[dict(kind=k, start=st, ops=(op,), vkinds=('bad',), _must=('end', 'rejected'))
                      for k in ('array', 'ragged') for st in (0, 2) for op in ('setitem', 'update')],
              timeout=T, replay='replay_meta', sym='s1, t1, probe',
              bounds='non-serialisable value through setitem/update from empty and non-empty start')]
    return obs


def conformance(tier):
    from ..conformance import scenarios
    return scenarios.run(['readonly', 'metadata'])
