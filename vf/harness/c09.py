"""C09 - a failed Array append leaves exactly the completed chunks."""
from ..runner import Ob
from .common import *
from .. import replay as rp
from .c03 import mk_input, dt_of, open_rw, check_all, ASSUMPTIONS as _A

PROPERTY = 'C09'
ASSUMPTIONS = _A + ['write refusal = the kernel writes the longest prefix that fits below the '
                    'limit and the call raises OSError (RLIMIT_FSIZE / quota behaviour, measured)']
D = loader.load(env=True, stub_readme=True)
np = symnp


class IterBoom(Exception):
    pass


def h_fail(n: int, j: int, k1: int, k2: int, k3: int, k4: int, limit: int, probe: int, silent: bool,
           kind='iterraise', numtype='int32', bo='little', atom=(), F=2, viaappend=False, ctx=False,
           _gate=None, _small=False):
    """iterappend of up to F chunks where something goes wrong at position j (0-based):
    kinds iterraise | wrongatom | wrongrank | unconvertible | limit (write refusal at byte `limit`)."""
    ks = [k1, k2, k3, k4][:F]
    assume(0 <= n <= BIG and 0 <= j <= F)
    for k in ks:
        assume(0 <= k <= BIG)
    for k in [k1, k2, k3, k4][F:]:
        if not ctx:
            assume(k == 0)
    small(_small, n, k4, *ks)
    rb = symnp._prod(atom) * ITEMSIZE[numtype]
    w = new_world()
    a = open_rw(w, n, numtype, bo, atom)
    node = w.lookup('/w/a/arrayvalues.bin')
    chunks = []
    refs = []
    for i in range(F):
        obj, r = mk_input('same' if i % 2 == 0 else 'cast', ks[i], atom, numtype, bo, i + 1)
        chunks.append(obj)
        refs.append(r)
    if kind == 'limit':
        assume(n * rb <= limit <= BIG * 64)
        if _small:
            assume(limit <= 64 * rb)
        node.limit = limit
        w.silent_refusal = silent
        # completed chunks: those that fit entirely; the failure is at the first that does not
        done = 0
        size = n * rb
        failing = False
        for i in range(F):
            if not failing:
                if size + ks[i] * rb <= limit:
                    size = size + ks[i] * rb
                    done = done + 1
                else:
                    failing = True
        assume(failing)          # some chunk is refused
        assume(j == done)
        first_chunk_refused = (done == 0)
    else:
        assume(j < F or kind == 'iterraise')
        assume(not silent)
        done = j
        first_chunk_refused = False
    gate(_gate, {'empty_start_first_chunk_write': kind == 'limit' and n == 0 and first_chunk_refused})

    def gen():
        for i in range(F):
            if i == j and kind != 'limit':
                if kind == 'iterraise':
                    raise IterBoom('boom')
                if kind == 'wrongatom':
                    batom = (3,) if atom == (2,) else (2,)
                    yield np.ndarray(dt_of(numtype, bo), (ks[i],) + batom, Seq.of(('bad',), ks[i]))
                elif kind == 'wrongrank':
                    yield np.ndarray(dt_of(numtype, bo), (ks[i],) + atom + (2,),
                                     Seq.of(('bad',), ks[i]))
                elif kind == 'rankminus':
                    # one axis short: a single row handed over without its leading axis (shape == atom),
                    # for 1-D arrays a 0-d array
                    if atom:
                        yield np.ndarray(dt_of(numtype, bo), atom, Seq.of(('bad',), atom[0]))
                    else:
                        yield np.ndarray(dt_of(numtype, bo), (), Seq.of(('bad',), 1))
                elif kind == 'unconvertible':
                    yield np.BadSeqItem(ValueError('could not convert string to float'))
                elif kind == 'unconvertible_scalar':
                    yield np.BadItem(TypeError('int() argument must be a string or a number'))
                return
            yield chunks[i]
        if kind == 'iterraise' and j == F:
            raise IterBoom('boom at end')
    k0 = 0
    r0 = Seq()

    def run():
        try:
            if viaappend:
                assume(j == 0 or kind == 'limit')
                a.append(chunks[0] if kind == 'limit' else next(gen()))
            else:
                a.iterappend(gen())
            return None
        except IterBoom as e:
            return e
        except Exception as e:
            return e
    if ctx:
        # inside an open_array() context, after a SUCCESSFUL append under the same (now stale) shared map
        assume(kind != 'limit' and F <= 3 and n >= 1)
        k0 = k4
        assume(0 <= k0 <= BIG)
        c0, r0 = mk_input('same', k0, atom, numtype, bo, 9)
        with a.open_array():
            a.append(c0)
            raised = run()
    else:
        raised = run()
    if raised is None:
        raise Violation('the failing append did not raise')
    ref = Seq.of(('orig',), n).concat(r0)
    total = n + k0
    for i in range(F):
        if i < done:
            ref = ref.concat(refs[i])
            total = total + ks[i]
    node.limit = None
    try:
        check_all(w, a, numtype, bo, (total,) + atom, ref, probe, 'after failed append')
    except Violation:
        raise
    except Exception as e:
        raise Violation(f'array does not open normally after a failed append: {type(e).__name__}',
                        msg=holes.symstr(e))
    reach('end')


# ---- replay -----------------------------------------------------------------------------------------
_CHILD = r'''
import sys, json, os, resource, signal
import numpy as np, darr, warnings
warnings.simplefilter('ignore')
spec = json.loads(sys.argv[1])
path = spec['path']; n = spec['n']; ks = spec['ks']; atom = tuple(spec['atom']); numtype = spec['numtype']
bo = spec['bo']; kind = spec['kind']; j = spec['j']; F = len(ks)
ROW = spec['rowscale']           # rows are scaled so that byte limits lie above README/JSON sizes
CROW = spec.get('chunkscale', ROW)
def vals(k, base, scale=None):
    ROW = scale if scale is not None else globals()['ROW']
    cnt = k * ROW * int(np.prod(atom, dtype=int))
    v = (np.arange(cnt, dtype='int64') + base)
    if numtype.startswith(('int', 'uint')) and np.iinfo(numtype).max < 2**62:
        v = v % (int(np.iinfo(numtype).max) + 1)
    return v.astype(numtype).reshape((k * ROW,) + atom).astype(np.dtype(numtype).newbyteorder('<' if bo == 'little' else '>'))
orig = vals(n, 1)
if n > 0:
    a = darr.asarray(path, orig, accessmode='r+')
else:
    a = darr.create_array(path, shape=(0,) + atom, dtype=orig.dtype, accessmode='r+')
chunks = [vals(k, 1000 * (i + 1), CROW) if i % 2 == 0 else vals(k, 1000 * (i + 1), CROW).astype('float64' if numtype != 'float64' else 'int32') for i, k in enumerate(ks)]
class Boom(Exception): pass
def gen():
    for i in range(F):
        if i == j and kind != 'limit':
            if kind == 'iterraise': raise Boom()
            if kind == 'wrongatom': yield np.zeros((max(ks[i],1),) + ((3,) if atom == (2,) else (2,)), dtype=orig.dtype)
            elif kind == 'wrongrank': yield np.zeros((max(ks[i],1),) + atom + (2,), dtype=orig.dtype)
            elif kind == 'rankminus': yield np.zeros(atom, dtype=orig.dtype)
            elif kind == 'unconvertible': yield ['x' for _ in range(3)]
            elif kind == 'unconvertible_scalar': yield object()
            return
        yield chunks[i]
    if kind == 'iterraise' and j == F: raise Boom()
if kind == 'limit':
    signal.signal(signal.SIGXFSZ, signal.SIG_IGN)
    lim = spec['limit_bytes']
    resource.setrlimit(resource.RLIMIT_FSIZE, (lim, resource.getrlimit(resource.RLIMIT_FSIZE)[1]))
out = {}
c0 = vals(spec.get('k0', 0), 9000, CROW)
def run():
    try:
        if spec.get('viaappend'):
            a.append(chunks[0] if kind == 'limit' else next(gen()))
        else:
            a.iterappend(gen())
        out['raised'] = None
    except BaseException as e:
        out['raised'] = type(e).__name__
if spec.get('ctx'):
    with a.open_array():
        a.append(c0)
        run()
else:
    run()
if kind == 'limit':
    resource.setrlimit(resource.RLIMIT_FSIZE, (resource.RLIM_INFINITY, resource.getrlimit(resource.RLIMIT_FSIZE)[1]))
model = orig
if spec.get('ctx'):
    model = np.concatenate([model, c0], axis=0)
for i in range(spec['done']):
    model = np.concatenate([model, chunks[i].astype(orig.dtype)], axis=0)
try:
    b = darr.Array(path)
    got = b[:]
    out['opens'] = True
    out['equal'] = bool(got.dtype == model.dtype and got.shape == model.shape and got.tobytes() == model.tobytes())
    out['shape'] = list(got.shape); out['want'] = list(model.shape)
    live = a[:]
    out['live_equal'] = bool(live.shape == model.shape and live.tobytes() == model.tobytes() and a.shape == model.shape)
    out['filesize'] = os.path.getsize(path + '/arrayvalues.bin'); out['wantsize'] = model.nbytes
except BaseException as e:
    out['opens'] = False
    out['open_error'] = f'{type(e).__name__}: {e}'[:300]
print(json.dumps(out))
'''


def replay_fail(cex, d):
    import json
    fx = dict(d.get('fixed') or {})
    fx.update(cex)
    F = int(fx.get('F', 2))
    ks = [int(fx[f'k{i + 1}']) for i in range(F)]
    n = int(fx['n'])
    atom = tuple(fx.get('atom', ()))
    numtype = fx.get('numtype', 'int32')
    kind = fx['kind']
    if max([n] + ks) > 400:
        return {'reproduced': False, 'skip': True, 'detail': 'sizes too large to materialise'}
    isz = ITEMSIZE[numtype]
    rb = isz
    for x in atom:
        rb *= x
    rowscale = 1
    done = int(fx['j'])
    silent = bool(fx.get('silent'))
    spec = dict(n=n, ks=ks, atom=atom, numtype=numtype, bo=fx.get('bo', 'little'), kind=kind,
                j=int(fx['j']), rowscale=1, done=done, viaappend=bool(fx.get('viaappend')),
                ctx=bool(fx.get('ctx')), k0=int(fx.get('k4', 0)) if fx.get('ctx') else 0)
    if kind == 'limit':
        # scale rows so that the limit lies above the size of README / JSON files
        rowscale = max(1, (32768 + rb - 1) // rb) if not silent else 1    # silent short writes need SMALL chunks
        spec['rowscale'] = rowscale
        limit = int(fx['limit'])
        whole, extra = divmod(limit, rb)
        spec['limit_bytes'] = whole * rb * rowscale + extra   # same rows, same extra bytes
        if silent:
            # NumPy swallows the short write only when the chunk fits the stdio buffer: keep the chunks
            # small, scale only the rows that are already there (so that the limit lies above README size)
            if n == 0:
                return {'reproduced': False, 'skip': True,
                        'detail': 'silent refusal on an EMPTY array cannot be materialised: a limit below the first '
                                  'chunk is also below the README size'}
            rowscale = max(1, (32768 + rb - 1) // rb)
            spec['rowscale'] = rowscale
            spec['chunkscale'] = 1
            spec['limit_bytes'] = n * rb * rowscale + (limit - n * rb)
        if spec['limit_bytes'] < 32768:
            spec['limit_bytes'] += 0
    with rp.scratch() as tmp:
        spec['path'] = tmp + '/a'
        rc, out, err = rp.run_child(_CHILD.replace('sys.argv[1]', repr(json.dumps(spec))))
        if rc != 0 or not out.strip():
            return {'reproduced': False, 'detail': f'replay child failed rc={rc}: {err[-600:]}'}
        o = json.loads(out.strip().splitlines()[-1])
    bad = []
    if o.get('raised') is None:
        bad.append('the failing append did not raise')
    if not o.get('opens'):
        bad.append(f"array does not open after the failed append: {o.get('open_error')}")
    else:
        if not o.get('equal'):
            bad.append(f"contents differ from original + {done} completed chunks (shape {o.get('shape')} vs {o.get('want')})")
        if not o.get('live_equal'):
            bad.append('live handle disagrees')
        if o.get('filesize') != o.get('wantsize'):
            bad.append(f"data file size {o.get('filesize')} != {o.get('wantsize')}")
    if bad:
        return {'reproduced': True, 'detail': '; '.join(bad) + f' [spec {spec}]'}
    return {'reproduced': False, 'detail': f'real darr recovered correctly: {o} [spec {spec}]'}


def obligations(tier):
    thorough = tier == 'thorough'
    F = 3 if thorough else 2
    T = 900 if thorough else 150
    cfgs = [('int32', 'little', ()), ('float64', 'big', (2,))]
    if thorough:
        cfgs += [('uint8', 'little', (2, 3)), ('complex128', 'little', (1,)), ('int16', 'big', ())]
    obs = []
    for kind in ('iterraise', 'wrongatom', 'wrongrank', 'rankminus', 'unconvertible', 'unconvertible_scalar',
                 'limit'):
        splits = []
        for (nt, bo, at) in cfgs:
            if kind in ('wrongatom', 'rankminus') and at == ():
                at = (2,)          # (a 0-d chunk for a 1-D array is a number: compatible, see C03 form zerodim)
            splits.append(dict(kind=kind, numtype=nt, bo=bo, atom=at, F=F))
        if kind in ('limit', 'wrongatom'):
            splits.append(dict(kind=kind, numtype='int32', bo='little', atom=(2,), F=1, viaappend=True))
        if kind in ('iterraise', 'wrongatom', 'unconvertible'):
            splits.append(dict(kind=kind, numtype='int32', bo='big', atom=(2,), F=2, ctx=True))
        obs.append(Ob(f'FAIL-{kind}', 'h_fail', splits=splits, timeout=T,
                      regions=('empty_start_first_chunk_write',) if kind == 'limit' else (),
                      replay='replay_fail',
                      sym='n, j (failure position), k1..kF, limit (bytes), probe : int',
                      bounds=f'0<=n<=2^62 (empty and non-empty start), F={F} chunks of 0<=k_i<=2^62 rows, '
                             f'failure position 0..F; kind={kind}'
                             + ('; limit: ANY byte offset >= current file size (chunk boundary +-1, '
                                'mid-row, mid-element are values of one variable)' if kind == 'limit' else '')
                             + '; outside: a second fault during recovery'))
    return obs


def conformance(tier):
    from ..conformance import scenarios
    return scenarios.run(['array_append', 'array_failappend'])
