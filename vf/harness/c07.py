"""C07 - generated read code for RaggedArrays extracts every subarray correctly."""
import os

from ..runner import Ob
from .common import *
from .. import replay as rp
from . import c06
from .c06 import mk_handle, table_says, check_denotation
from ..lang import raggedcode
from ..lang.syntax import IllFormed

PROPERTY = 'C07'
ASSUMPTIONS = c06.ASSUMPTIONS + ['indexing rules per language (index origin, end inclusiveness, axis order, behaviour of a range with '
                                 'end = start-1) as listed in vf/lang/raggedcode.py are the trusted base']
D = c06.D
np = symnp
RA = D.raggedarray
RLANGS = ['darr', 'idl', 'julia', 'maple', 'mathematica', 'matlab', 'numpymemmap', 'R', 'scilab']
ALANG = {'julia': 'julia_ver1'}


def mk_ragged_handle(w, n, N, atom, numtype, indextype, bolabel='little'):
    top = w.mkdirs('/w/dat/rag')
    vi = mk_handle(w, '/w/dat/rag/indices', [n, 2], indextype, 'little')
    vv = mk_handle(w, '/w/dat/rag/values', [N] + list(atom), numtype, bolabel)
    for h, shape, nt, bl in ((vi, (n, 2), indextype, 'little'), (vv, (N,) + tuple(atom), numtype, bolabel)):
        h._shape = shape
        h._dtype = np.SymDType(nt, gt_of(nt, bl))
        h._size = symnp._prod(shape)
    ra = object.__new__(RA.RaggedArray)
    ra._datadir = D.datadir.DataDir(path='/w/dat/rag', protectedpaths=ra._protectedfiles)
    ra._path = ra._datadir._path
    ra._accessmode = 'r'
    ra._valuespath = ra._path / 'values'
    ra._indicespath = ra._path / 'indices'
    ra._values = vv
    ra._indices = vi
    ra._arrayinfo = {'len': n, 'size': symnp._prod((N,) + tuple(atom)), 'atom': tuple(atom), 'numtype': numtype,
                     'darrversion': darrversion(D), 'darrobject': 'RaggedArray'}

    def donor():
        put_ragged(D, w, '/w/donor/rag', [1, 2], numtype, bolabel, tuple(2 for _ in atom))
        return RA.RaggedArray('/w/donor/rag')
    return complete_stub(ra, donor)


def expected_offered(lang, numtype, indextype, natom, vsize):
    if lang in ('darr',):
        return True
    al = ALANG.get(lang, lang)
    v_ok = table_says(al, numtype, 1 + natom)
    i_ok = table_says(al, indextype, 2)
    if lang == 'R' and indextype == 'int64':
        # documented allowance: int64 indices are read as R integers as long as all index values fit int32
        i_ok = vsize <= 2147483647
    return v_ok and i_ok


def h_ragged_code(n: int, N: int, a0: int, a1: int, a2: int, S: int, E: int, K: int, numtype='float64',
                  indextype='int64', natom=1, langs=tuple(RLANGS), bo='little', _gate=None, _small=False):
    ats = [a0, a1, a2]
    for x in ats[:natom]:
        assume(1 <= x <= 2 ** 20)
    for x in ats[natom:]:
        assume(x == 1)
    atom = ats[:natom]
    assume(1 <= n <= 2 ** 40 and 1 <= N <= 2 ** 40 and 0 <= S <= E <= N)
    small(_small, n, N, S, E, K, *atom)
    w = new_world()
    ra = mk_ragged_handle(w, n, N, atom, numtype, indextype, bo)
    vsize = symnp._prod([N] + atom)
    offered_now = []
    for lang in langs:
        want = expected_offered(lang, numtype, indextype, natom, vsize)
        for mode, kw, base in (('relative', {}, ''), ('base', {'basepath': 'some/base'}, 'some/base/'),
                               ('abs', {'abspath': True}, '/w/dat/rag/')):
            code = ra.readcode(lang, **kw)
            if code is None:
                if want:
                    raise Violation(f'{lang}: ragged code withheld although values ({numtype}) and index type '
                                    f'({indextype}) are supported')
                continue
            if not want:
                raise Violation(f'{lang}: ragged code offered although the values or index type is unsupported')
            origin = 0 if lang in ('darr', 'numpymemmap', 'idl') else 1
            k = K
            assume(origin <= k <= origin + n - 1)
            try:
                den = raggedcode.interpret(lang, code, S, E, k, natom)
            except IllFormed as e:
                raise Violation(f'{lang} ({mode} path): generated ragged code is not well-formed: {e}', code=code)
            if den['iden'] is not None:
                al = ALANG.get(lang, lang)
                check_denotation(den['iden'], al, indextype, 'little', [n, 2], base + 'indices/arrayvalues.bin')
                check_denotation(den['vden'], al, numtype, bo, [N] + atom, base + 'values/arrayvalues.bin')
            # the accessor returns exactly rows [S, E) of the stored first axis, for every S <= E
            if den['lo'] != S or den['hi'] != E:
                raise Violation(f'{lang}: the subarray accessor does not select rows start..end of subarray k '
                                f'(index origin / end inclusiveness / row-column mix-up)')
            kind, dims = den['empty']
            if kind == 'guard':
                g = den['guard_cond']
                guard_true = (g[1] > g[2]) if g[0] == 'starti>endi' else (g[1] == g[2])
                if guard_true != (S == E):
                    raise Violation(f'{lang}: the empty-subarray guard is not equivalent to start == end')
                if dims:
                    wantd = list(atom)[::-1] + [0]
                    if len(dims) != len(wantd):
                        raise Violation(f'{lang}: empty subarray has {len(dims)} dimensions, atom rank is {natom}')
                    for x, y in zip(dims, wantd):
                        if x != y:
                            raise Violation(f'{lang}: the empty subarray does not have the dimensions of the atom in '
                                            f'{lang}\'s (reversed) axis order')
            # example statement: binds an existing subarray, the one the comment states
            ek = den['example_k']
            pos, sk = den['stated']
            if ek != sk:
                raise Violation(f'{lang}: the example statement reads subarray index {ek} but states k={sk}')
            if not (den['origin'] <= ek <= den['origin'] + n - 1):
                raise Violation(f'{lang}: the example statement reads subarray {ek}, which does not exist')
            if {'first': 0, 'second': 1, 'third': 2}[pos] != ek - den['origin']:
                raise Violation(f'{lang}: the example comment calls subarray index {ek} the {pos} one')
        if ra.readcode(lang) is not None:
            offered_now.append(lang)
    if set(langs) == set(RLANGS):
        if tuple(sorted(offered_now)) != tuple(ra.readcodelanguages):
            raise Violation('readcodelanguages differs from the offered set')
    reach('end')


def replay_ragged_code(cex, d):
    """concrete evaluation of the REAL readcode() output with the interpreter (and, for the Python
    family, execution)"""
    import warnings
    warnings.simplefilter('ignore')
    darr, np_ = rp.real()
    fx = dict(d.get('fixed') or {})
    fx.update(cex)
    what = d.get('what') or ''
    lang = what.split(':')[0].split(' ')[0]
    natom = int(fx['natom'])
    atom = tuple(min(int(fx[f'a{i}']), 3) + i for i in range(natom))
    n = min(int(fx['n']), 6)
    numtype, indextype = fx['numtype'], fx['indextype']
    probs = []
    with rp.scratch() as tmp:
        lens = [(i * 2) % 3 for i in range(n)]
        subs = [rp.values(np_, l, atom, numtype, fx.get('bo', 'little'), 1 + 5 * i) for i, l in enumerate(lens)]
        ra = darr.asraggedarray(tmp + '/rag', subs, indextype=indextype)
        langs = [lang] if lang in RLANGS else RLANGS
        N = sum(lens)
        for lg in langs:
            code = ra.readcode(lg)
            want = expected_offered(lg, numtype, indextype, natom, N * int(np_.prod(atom, dtype=int)))
            if code is None:
                if want:
                    probs.append(f'{lg}: withheld although supported')
                continue
            if not want:
                probs.append(f'{lg}: offered although unsupported')
            starts = np_.cumsum([0] + lens)
            for k0 in range(n):
                S, E = int(starts[k0]), int(starts[k0 + 1])
                origin = 0 if lg in ('darr', 'numpymemmap', 'idl') else 1
                try:
                    den = raggedcode.interpret(lg, code, S, E, k0 + origin, natom)
                except IllFormed as e:
                    probs.append(f'{lg}: real readcode() output not well-formed: {e}')
                    break
                if den['lo'] != S or den['hi'] != E:
                    probs.append(f'{lg}: accessor selects [{den["lo"]},{den["hi"]}) for subarray {k0} = [{S},{E})')
                    break
                if den['empty'][0] == 'guard' and den['empty'][1]:
                    if list(den['empty'][1]) != list(atom)[::-1] + [0]:
                        probs.append(f'{lg}: empty subarray dims {den["empty"][1]} != atom reversed {list(atom)[::-1]} + [0]')
                        break
                ek, (pos, sk) = den['example_k'], den['stated']
                if ek != sk or not (den['origin'] <= ek <= den['origin'] + n - 1):
                    probs.append(f'{lg}: example statement index {ek} (stated k={sk}) with {n} subarrays')
                    break
            if lg == 'numpymemmap' and not probs:
                ns = {}
                cwd = os.getcwd()
                try:
                    os.chdir(tmp + '/rag')
                    exec(code, ns)
                    for k0 in range(n):
                        if np_.asarray(ns['getsubarray'](k0)).tobytes() != subs[k0].tobytes():
                            probs.append('numpymemmap: executed accessor returns other data')
                except Exception as e:
                    probs.append(f'numpymemmap: executing raised {e!r}')
                finally:
                    os.chdir(cwd)
                    ns.clear()
    if probs:
        return {'reproduced': True, 'detail': '; '.join(probs[:3])[:1500]}
    return {'reproduced': False, 'detail': 'real ragged readcode() output is well-formed and correct'}


def conformance(tier):
    """execute the real numpymemmap / darr ragged snippets and compare with the stored subarrays"""
    import warnings
    warnings.simplefilter('ignore')
    darr, np_ = rp.real()
    mism = []
    cnt = 0
    with rp.scratch() as tmp:
        for nt, it, atom in [('float64', 'int64', ()), ('int16', 'int32', (2,)), ('complex64', 'uint8', (2, 3)),
                             ('uint8', 'int16', (1,))]:
            lens = [2, 0, 3, 1]
            subs = [rp.values(np_, l, atom, nt, 'little', 1 + 7 * i) for i, l in enumerate(lens)]
            p = tmp + f'/r{cnt}'
            ra = darr.asraggedarray(p, subs, indextype=it)
            code = ra.readcode('numpymemmap')
            ns = {}
            cwd = os.getcwd()
            try:
                os.chdir(p)
                exec(code, ns)
                for k0 in range(len(lens)):
                    got = np_.asarray(ns['getsubarray'](k0))
                    if got.shape != subs[k0].shape or got.tobytes() != subs[k0].tobytes():
                        mism.append(f'numpymemmap ragged snippet returns other data for subarray {k0} ({nt},{it},{atom})')
                den = raggedcode.interpret('numpymemmap', code, 2, 2, 1, len(atom))
                if den['lo'] != 2 or den['hi'] != 2:
                    mism.append('interpreter disagrees with execution')
            except Exception as e:
                mism.append(f'executing the ragged numpymemmap snippet raised {e!r}')
            finally:
                os.chdir(cwd)
                ns.clear()
            cnt += 1
    return {'scenarios': cnt, 'mismatches': mism, 'names': ['ragged numpymemmap snippets executed']}


def obligations(tier):
    thorough = tier == 'thorough'
    T = 600 if thorough else 200
    splits = []
    its = INDEXTYPES
    for i, nt in enumerate(NUMTYPES):
        for j, it in enumerate(its if thorough else [its[i % 7], 'int64']):
            for natom in ((0, 1, 2, 3) if thorough else ((i + j) % 3,)):
                splits.append(dict(numtype=nt, indextype=it, natom=natom, bo='little' if (i + j) % 2 else 'big'))
    return [Ob('RDENOTE', 'h_ragged_code', splits=splits, timeout=T, replay='replay_ragged_code', stub_readme=False,
               sym='n (number of subarrays), N, atom extents a_j, S <= E (index row of subarray k), K (requested k)',
               bounds='9 languages x 13 value types x index types x atom rank 0..2 (thorough 0..3); n, N, atom extents, the '
                      'index row (S, E) with S <= E (zero-length subarrays are values) and the requested k are symbolic; '
                      '3 path modes; outside: the truth of the indexing rules encoded in vf/lang/raggedcode.py')]
