"""C07 - generated read code for RaggedArrays extracts every subarray correctly."""
import os

from ..runner import Ob
from .common import *
from .. import replay as rp
from . import c06
from .c06 import mk_handle, table_says, check_denotation
from ..lang import raggedcode
from ..lang.syntax import IllFormed

PROPERTY = 'C07'
ASSUMPTIONS = c06.ASSUMPTIONS + ['indexing rules per language (index origin, end inclusiveness, axis order, behaviour of a range with '
                                 'end = start-1) as listed in vf/lang/raggedcode.py are the trusted base']
D = c06.D
np = symnp
RA = D.raggedarray
RLANGS = ['darr', 'idl', 'julia', 'maple', 'mathematica', 'matlab', 'numpymemmap', 'R', 'scilab']
ALANG = {'julia': 'julia_ver1'}


def mk_ragged_handle(w, n, N, atom, numtype, indextype, bolabel='little'):
    top = w.mkdirs('/w/dat/rag')
    vi = mk_handle(w, '/w/dat/rag/indices', [n, 2], indextype, 'little')
    vv = mk_handle(w, '/w/dat/rag/values', [N] + list(atom), numtype, bolabel)
    for h, shape, nt, bl in ((vi, (n, 2), indextype, 'little'), (vv, (N,) + tuple(atom), numtype, bolabel)):
        h._shape = shape
        h._dtype = np.SymDType(nt, gt_of(nt, bl))
        h._size = symnp._prod(shape)
    ra = object.__new__(RA.RaggedArray)
    ra._datadir = D.datadir.DataDir(path='/w/dat/rag', protectedpaths=ra._protectedfiles)
    ra._path = ra._datadir._path
    ra._accessmode = 'r'
    ra._valuespath = ra._path / 'values'
    ra._indicespath = ra._path / 'indices'
    ra._values = vv
    ra._indices = vi
    ra._arrayinfo = {'len': n, 'size': symnp._prod((N,) + tuple(atom)), 'atom': tuple(atom), 'numtype': numtype,
                     'darrversion': darrversion(D), 'darrobject': 'RaggedArray'}

    def donor():
        put_ragged(D, w, '/w/donor/rag', [1, 2], numtype, bolabel, tuple(2 for _ in atom))
        return RA.RaggedArray('/w/donor/rag')
    return complete_stub(ra, donor)


def expected_offered(lang, numtype, indextype, natom, vsize):
    if lang in ('darr',):
        return True
    al = ALANG.get(lang, lang)
    v_ok = table_says(al, numtype, 1 + natom)
    i_ok = table_says(al, indextype, 2)
    if lang == 'R' and indextype == 'int64':
        # documented allowance: int64 indices are read as R integers as long as all index values fit int32
        i_ok = vsize <= 2147483647
    return v_ok and i_ok


def h_ragged_code(n: int, N: int, a0: int, a1: int, a2: int, S: int, E: int, K: int, numtype='float64',
                  indextype='int64', natom=1, langs=tuple(RLANGS), bo='little', _gate=None, _small=False):
    ats = [a0, a1, a2]
    for x in ats[:natom]:
        assume(1 <= x <= 2 ** 20)
    for x in ats[natom:]:
        assume(x == 1)
    atom = ats[:natom]
    assume(1 <= n <= 2 ** 40 and 1 <= N <= 2 ** 40 and 0 <= S <= E <= N)
    small(_small, n, N, S, E, K, *atom)
    w = new_world()
    ra = mk_ragged_handle(w, n, N, atom, numtype, indextype, bo)
    vsize = symnp._prod([N] + atom)
    offered_now = []
    for lang in langs:
        want = expected_offered(lang, numtype, indextype, natom, vsize)
        for mode, kw, base in (('relative', {}, ''), ('base', {'basepath': 'some/base'}, 'some/base/'),
                               ('abs', {'abspath': True}, '/w/dat/rag/')):
            code = ra.readcode(lang, **kw)
            if code is None:
                if want:
                    raise Violation(f'{lang}: ragged code withheld although values ({numtype}) and index type '
                                    f'({indextype}) are supported')
                continue
            if not want:
                raise Violation(f'{lang}: ragged code offered although the values or index type is unsupported')
            origin = 0 if lang in ('darr', 'numpymemmap', 'idl') else 1
            k = K
            assume(origin <= k <= origin + n - 1)
            try:
                den = raggedcode.interpret(lang, code, S, E, k, natom)
            except IllFormed as e:
                raise Violation(f'{lang} ({mode} path): generated ragged code is not well-formed: {e}', code=code)
            if den['iden'] is not None:
                al = ALANG.get(lang, lang)
                check_denotation(den['iden'], al, indextype, 'little', [n, 2], base + 'indices/arrayvalues.bin')
                check_denotation(den['vden'], al, numtype, bo, [N] + atom, base + 'values/arrayvalues.bin')
            # the accessor returns exactly rows [S, E) of the stored first axis, for every S <= E
            if den['lo'] != S or den['hi'] != E:
                raise Violation(f'{lang}: the subarray accessor does not select rows start..end of subarray k '
                                f'(index origin / end inclusiveness / row-column mix-up)')
            kind, dims = den['empty']
            if kind == 'guard':
                g = den['guard_cond']
                guard_true = (g[1] > g[2]) if g[0] == 'starti>endi' else (g[1] == g[2])
                if guard_true != (S == E):
                    raise Violation(f'{lang}: the empty-subarray guard is not equivalent to start == end')
                if dims:
                    wantd = list(atom)[::-1] + [0]
                    if len(dims) != len(wantd):
                        raise Violation(f'{lang}: empty subarray has {len(dims)} dimensions, atom rank is {natom}')
                    for x, y in zip(dims, wantd):
                        if x != y:
                            raise Violation(f'{lang}: the empty subarray does not have the dimensions of the atom in '
                                            f'{lang}\'s (reversed) axis order')
            # example statement: binds an existing subarray, the one the comment states
            ek = den['example_k']
            pos, sk = den['stated']
            if ek != sk:
                raise Violation(f'{lang}: the example statement reads subarray index {ek} but states k={sk}')
            if not (den['origin'] <= ek <= den['origin'] + n - 1):
                raise Violation(f'{lang}: the example statement reads subarray {ek}, which does not exist')
            if {'first': 0, 'second': 1, 'third': 2}[pos] != ek - den['origin']:
                raise Violation(f'{lang}: the example comment calls subarray index {ek} the {pos} one')
        if ra.readcode(lang) is not None:
            offered_now.append(lang)
    if set(langs) == set(RLANGS):
        if tuple(sorted(offered_now)) != tuple(ra.readcodelanguages):
            raise Violation('readcodelanguages differs from the offered set')
    reach('end')


def _check_code(lang, code, n, N, atom, numtype, indextype, bo, S, E, k0, what):
    """the program `code` denotes the stored arrays (n index rows, N value rows) and its accessor selects rows
    [S, E) for subarray k0 (0-based)"""
    natom = len(atom)
    origin = 0 if lang in ('darr', 'numpymemmap', 'idl') else 1
    try:
        den = raggedcode.interpret(lang, code, S, E, k0 + origin, natom)
    except IllFormed as e:
        raise Violation(f'{lang} ({what}): generated ragged code is not well-formed: {e}', code=code)
    if den['iden'] is not None:
        al = ALANG.get(lang, lang)
        check_denotation(den['iden'], al, indextype, 'little', [n, 2], 'indices/arrayvalues.bin')
        check_denotation(den['vden'], al, numtype, bo, [N] + list(atom), 'values/arrayvalues.bin')
    if den['lo'] != S or den['hi'] != E:
        raise Violation(f'{lang} ({what}): the subarray accessor does not select rows start..end of subarray k')
    ek = den['example_k']
    if not (den['origin'] <= ek <= den['origin'] + n - 1):
        raise Violation(f'{lang} ({what}): the example statement reads subarray {ek}, which does not exist')


def h_history(l1: int, l2: int, k: int, numtype='int32', indextype='int64', atom=(), langs=tuple(RLANGS),
              bo='little', steps=('truncate', 'append'), _gate=None, _small=False):
    """read code asked for on ONE handle before and after the array changes through the API (last subarray
    removed, another of a different length appended: same number of subarrays, other values length) must
    describe the array as it is at the moment of asking"""
    assume(1 <= l1 <= 2 ** 20 and 0 <= l2 <= 2 ** 20 and 1 <= k <= 2 ** 20)
    hi = symnp.INT_RANGE[indextype][1]
    assume(l1 + l2 <= hi and l1 + l2 + k <= hi)       # every index is representable in the index type (else: C04/C10)
    small(_small, l1, l2, k)
    w = new_world()
    put_ragged(D, w, '/w/dat/rag', [l1, l2], numtype, bo, tuple(atom), indextype)
    ra = RA.RaggedArray('/w/dat/rag', accessmode='r+')
    natom = len(atom)
    asize = symnp._prod(list(atom))
    for lang in langs:
        code = ra.readcode(lang)
        if code is not None:
            _check_code(lang, code, 2, l1 + l2, atom, numtype, indextype, bo, l1, l1 + l2, 1, 'before')
    n, N, S = 2, l1 + l2, l1
    try:
        for st in steps:
            if st == 'truncate':
                RA.truncate_raggedarray(ra, 1)
                n, N, S = 1, l1, 0
            elif st == 'append':
                ra.append(np.ndarray(np.SymDType(numtype, gt_of(numtype, bo)), (k,) + tuple(atom), Seq.of(('new', 1), k)))
                n, S, N = n + 1, N, N + k
    except Exception as e:
        raise Violation(f'a valid truncate/append raised {type(e).__name__}', msg=holes.symstr(e))
    for lang in langs:
        want = expected_offered(lang, numtype, indextype, natom, N * asize)
        code = ra.readcode(lang)
        if code is None:
            if want:
                raise Violation(f'{lang}: ragged code withheld after the change although the types are supported')
            continue
        if not want:
            raise Violation(f'{lang}: ragged code offered after the change although unsupported')
        _check_code(lang, code, n, N, atom, numtype, indextype, bo, S, N, n - 1, 'after ' + '+'.join(steps))
    reach('end')


def h_run_readonly(l1: int, l2: int, k: int, probe: int, numtype='int32', atom=(), version='same', withmeta=False,
                   _gate=None, _small=False):
    """what the generated 'Python with Darr' program DOES - darr.RaggedArray(path) with the default access mode,
    then a[k] - changes no file of the array, whichever Darr version wrote its descriptions"""
    assume(0 <= l1 <= 2 ** 20 and 0 <= l2 <= 2 ** 20 and 0 <= k <= 1)
    small(_small, l1, l2)
    w = new_world()
    put_ragged(D, w, '/w/dat/rag', [l1, l2], numtype, 'little', tuple(atom), 'int64',
               metadata={'who': 'me'} if withmeta else None)
    if version != 'same':
        for pth in ('/w/dat/rag', '/w/dat/rag/values', '/w/dat/rag/indices'):
            node = w.lookup(pth + '/arraydescription.json')
            obj = dict(node.text.obj)
            obj['darrversion'] = version
            node.text = JsonDoc(obj)
    before = snap(w.lookup('/w/dat/rag'))
    code = ra_code = None
    try:
        a = RA.RaggedArray(path='/w/dat/rag')
        sub = a[k]
        code = a.readcode('darr')
    except Exception as e:
        raise Violation(f'reading a well-formed ragged array written by Darr {version} raised {type(e).__name__}',
                        msg=holes.symstr(e))
    if not snap_same(before, snap(w.lookup('/w/dat/rag')), probe):
        raise Violation(f'executing what the Darr read code does (open read-only, index) CHANGED a file of the array '
                        f'(descriptions written by Darr version {version})')
    no_open_handles(w, 'after running the read code')
    reach('end')


def replay_run_readonly(cex, d):
    import warnings
    import json as js
    import hashlib
    warnings.simplefilter('ignore')
    darr, np_ = rp.real()
    fx = dict(d.get('fixed') or {})
    fx.update(cex)
    l1, l2 = min(int(fx['l1']), 5), min(int(fx['l2']), 5)
    atom = tuple(fx['atom'])

    def tree(p):
        out = {}
        for dp, dn, fn in os.walk(p):
            for f in fn:
                q = os.path.join(dp, f)
                out[os.path.relpath(q, p)] = hashlib.sha256(open(q, 'rb').read()).hexdigest()
        return out
    with rp.scratch() as tmp:
        p = tmp + '/rag'
        ra = darr.asraggedarray(p, [rp.values(np_, l1, atom, fx['numtype'], 'little', 1),
                                    rp.values(np_, l2, atom, fx['numtype'], 'little', 9)],
                                metadata={'who': 'me'} if fx.get('withmeta') else None)
        code = ra.readcode('darr', abspath=True)
        del ra
        if fx['version'] != 'same':
            for sub in ('', '/values', '/indices'):
                q = p + sub + '/arraydescription.json'
                obj = js.load(open(q))
                obj['darrversion'] = fx['version']
                js.dump(obj, open(q, 'w'))
        before = tree(p)
        try:
            ns = {}
            if code is not None:
                exec(code, ns)
                ns['a'][int(fx['k'])]
            else:
                darr.RaggedArray(path=p)[int(fx['k'])]
            ns.clear()
        except Exception as e:
            return {'reproduced': True, 'detail': f'running the Darr read code raised {e!r}'}
        after = tree(p)
        if after != before:
            ch = sorted(x for x in set(before) | set(after) if before.get(x) != after.get(x))
            return {'reproduced': True, 'detail': f'running the generated Darr code changed {ch}'}
    return {'reproduced': False, 'detail': 'running the Darr read code leaves every file byte-identical'}


def replay_history(cex, d):
    import warnings
    warnings.simplefilter('ignore')
    darr, np_ = rp.real()
    fx = dict(d.get('fixed') or {})
    fx.update(cex)
    numtype, indextype, atom = fx['numtype'], fx['indextype'], tuple(fx['atom'])
    l1, l2, k = (min(int(fx[x]), 7) for x in ('l1', 'l2', 'k'))
    if l2 == k:
        k = k + 1
    probs = []
    with rp.scratch() as tmp:
        subs = [rp.values(np_, l1, atom, numtype, fx.get('bo', 'little'), 1), rp.values(np_, l2, atom, numtype, fx.get('bo', 'little'), 50)]
        ra = darr.asraggedarray(tmp + '/rag', subs, indextype=indextype, accessmode='r+')
        for lg in RLANGS:
            ra.readcode(lg)
        n, N, S = 2, l1 + l2, l1
        for st in fx['steps']:
            if st == 'truncate':
                darr.truncate_raggedarray(ra, 1)
                subs = subs[:1]
                n, N, S = 1, l1, 0
            else:
                new = rp.values(np_, k, atom, numtype, fx.get('bo', 'little'), 90)
                ra.append(new)
                subs.append(new)
                n, S, N = n + 1, N, N + k
        fresh = darr.RaggedArray(tmp + '/rag')
        for lg in RLANGS:
            code = ra.readcode(lg)
            if (code is None) != (fresh.readcode(lg) is None):
                probs.append(f'{lg}: offered on the changed handle differs from a fresh handle')
                continue
            if code is None:
                continue
            try:
                origin = 0 if lg in ('darr', 'numpymemmap', 'idl') else 1
                den = raggedcode.interpret(lg, code, S, N, n - 1 + origin, len(atom))
            except IllFormed as e:
                probs.append(f'{lg}: not well-formed: {e}')
                continue
            if not (den['origin'] <= den['example_k'] <= den['origin'] + n - 1):
                probs.append(f'{lg}: the example statement reads subarray {den["example_k"]}, which does not exist '
                             f'({n} subarrays, index origin {den["origin"]})')
            if den['iden'] is not None:
                try:
                    al = ALANG.get(lg, lg)
                    check_denotation(den['iden'], al, indextype, 'little', [n, 2], 'indices/arrayvalues.bin')
                    check_denotation(den['vden'], al, numtype, fx.get('bo', 'little'), [N] + list(atom), 'values/arrayvalues.bin')
                except Violation as e:
                    probs.append(f'{lg}: after the change the code does not describe the stored arrays: {e}')
            if lg == 'numpymemmap':
                ns = {}
                cwd = os.getcwd()
                try:
                    os.chdir(tmp + '/rag')
                    exec(code, ns)
                    for k0 in range(n):
                        if np_.asarray(ns['getsubarray'](k0)).tobytes() != np_.asarray(subs[k0]).tobytes():
                            probs.append('numpymemmap: executed accessor returns other data after the change')
                except Exception as e:
                    probs.append(f'numpymemmap: executing raised {e!r}')
                finally:
                    os.chdir(cwd)
                    ns.clear()
    if probs:
        return {'reproduced': True, 'detail': '; '.join(probs[:3])[:1500]}
    return {'reproduced': False, 'detail': 'read code of the changed handle describes the changed array'}


def replay_ragged_code(cex, d):
    """concrete evaluation of the REAL readcode() output with the interpreter (and, for the Python
    family, execution)"""
    import warnings
    warnings.simplefilter('ignore')
    darr, np_ = rp.real()
    fx = dict(d.get('fixed') or {})
    fx.update(cex)
    what = d.get('what') or ''
    lang = what.split(':')[0].split(' ')[0]
    natom = int(fx['natom'])
    atom = tuple(min(int(fx[f'a{i}']), 3) + i for i in range(natom))
    n = min(int(fx['n']), 6)
    numtype, indextype = fx['numtype'], fx['indextype']
    probs = []
    with rp.scratch() as tmp:
        lens = [(i * 2) % 3 for i in range(n)]
        subs = [rp.values(np_, l, atom, numtype, fx.get('bo', 'little'), 1 + 5 * i) for i, l in enumerate(lens)]
        ra = darr.asraggedarray(tmp + '/rag', subs, indextype=indextype)
        langs = [lang] if lang in RLANGS else RLANGS
        N = sum(lens)
        for lg in langs:
            code = ra.readcode(lg)
            want = expected_offered(lg, numtype, indextype, natom, N * int(np_.prod(atom, dtype=int)))
            if code is None:
                if want:
                    probs.append(f'{lg}: withheld although supported')
                continue
            if not want:
                probs.append(f'{lg}: offered although unsupported')
            starts = np_.cumsum([0] + lens)
            for k0 in range(n):
                S, E = int(starts[k0]), int(starts[k0 + 1])
                origin = 0 if lg in ('darr', 'numpymemmap', 'idl') else 1
                try:
                    den = raggedcode.interpret(lg, code, S, E, k0 + origin, natom)
                except IllFormed as e:
                    probs.append(f'{lg}: real readcode() output not well-formed: {e}')
                    break
                if den['lo'] != S or den['hi'] != E:
                    probs.append(f'{lg}: accessor selects [{den["lo"]},{den["hi"]}) for subarray {k0} = [{S},{E})')
                    break
                if den['empty'][0] == 'guard' and den['empty'][1]:
                    if list(den['empty'][1]) != list(atom)[::-1] + [0]:
                        probs.append(f'{lg}: empty subarray dims {den["empty"][1]} != atom reversed {list(atom)[::-1]} + [0]')
                        break
                ek, (pos, sk) = den['example_k'], den['stated']
                if ek != sk or not (den['origin'] <= ek <= den['origin'] + n - 1):
                    probs.append(f'{lg}: example statement index {ek} (stated k={sk}) with {n} subarrays')
                    break
                if {'first': 0, 'second': 1, 'third': 2}[pos] != ek - den['origin']:
                    probs.append(f'{lg}: the example comment calls subarray index {ek} (index origin {den["origin"]}) the {pos} one')
                    break
            if lg == 'numpymemmap' and not probs:
                ns = {}
                cwd = os.getcwd()
                try:
                    os.chdir(tmp + '/rag')
                    exec(code, ns)
                    for k0 in range(n):
                        if np_.asarray(ns['getsubarray'](k0)).tobytes() != subs[k0].tobytes():
                            probs.append('numpymemmap: executed accessor returns other data')
                except Exception as e:
                    probs.append(f'numpymemmap: executing raised {e!r}')
                finally:
                    os.chdir(cwd)
                    ns.clear()
    if probs:
        return {'reproduced': True, 'detail': '; '.join(probs[:3])[:1500]}
    return {'reproduced': False, 'detail': 'real ragged readcode() output is well-formed and correct'}


def conformance(tier):
    """execute the real numpymemmap / darr ragged snippets and compare with the stored subarrays"""
    import warnings
    warnings.simplefilter('ignore')
    darr, np_ = rp.real()
    mism = []
    cnt = 0
    with rp.scratch() as tmp:
        for nt, it, atom in [('float64', 'int64', ()), ('int16', 'int32', (2,)), ('complex64', 'uint8', (2, 3)),
                             ('uint8', 'int16', (1,))]:
            lens = [2, 0, 3, 1]
            subs = [rp.values(np_, l, atom, nt, 'little', 1 + 7 * i) for i, l in enumerate(lens)]
            p = tmp + f'/r{cnt}'
            ra = darr.asraggedarray(p, subs, indextype=it)
            code = ra.readcode('numpymemmap')
            ns = {}
            cwd = os.getcwd()
            try:
                os.chdir(p)
                exec(code, ns)
                for k0 in range(len(lens)):
                    got = np_.asarray(ns['getsubarray'](k0))
                    if got.shape != subs[k0].shape or got.tobytes() != subs[k0].tobytes():
                        mism.append(f'numpymemmap ragged snippet returns other data for subarray {k0} ({nt},{it},{atom})')
                den = raggedcode.interpret('numpymemmap', code, 2, 2, 1, len(atom))
                if den['lo'] != 2 or den['hi'] != 2:
                    mism.append('interpreter disagrees with execution')
            except Exception as e:
                mism.append(f'executing the ragged numpymemmap snippet raised {e!r}')
            finally:
                os.chdir(cwd)
                ns.clear()
            cnt += 1
    return {'scenarios': cnt, 'mismatches': mism, 'names': ['ragged numpymemmap snippets executed']}


def obligations(tier):
    thorough = tier == 'thorough'
    T = 600 if thorough else 200
    splits = []
    its = INDEXTYPES
    for i, nt in enumerate(NUMTYPES):
        for j, it in enumerate(its if thorough else [its[i % 7], 'int64']):
            for natom in ((0, 1, 2, 3) if thorough else ((i + j) % 3,)):
                splits.append(dict(numtype=nt, indextype=it, natom=natom, bo='little' if (i + j) % 2 else 'big'))
    hs = [dict(numtype='int32', indextype='int64', atom=(), steps=('truncate', 'append')),
          dict(numtype='float64', indextype='int32', atom=(2,), steps=('append',)),
          dict(numtype='uint8', indextype='int64', atom=(), steps=('truncate',))]
    if thorough:
        hs += [dict(numtype=nt, indextype=it, atom=at, steps=('truncate', 'append'))
               for nt, it, at in (('int16', 'uint8', (3,)), ('complex128', 'int64', ()), ('float32', 'int16', (2, 2)))]
    rs = [dict(version=v, withmeta=m, numtype=nt, atom=at)
          for v in ('same', '0.1.0', '0.3.3', '99.0.0') for (m, nt, at) in ((False, 'int32', ()), (True, 'float64', (2,)))]
    return [Ob('RUN-READONLY', 'h_run_readonly', splits=rs, timeout=T, replay='replay_run_readonly',
               sym='l1, l2 (subarray lengths, 0 included), k, probe',
               bounds='the Darr-language program (open with default access mode, index subarray k) on a two-subarray ragged '
                      'array whose three descriptions carry the running, an older (0.1.0, 0.3.3) or a newer (99.0.0) '
                      'darrversion, with and without metadata: every file of the array is unchanged afterwards'),
            Ob('RHISTORY', 'h_history', splits=hs, timeout=T, replay='replay_history', stub_readme=False,
               sym='l1, l2 (lengths of the two subarrays), k (length of the appended one)',
               bounds='one r+ handle: readcode in all 9 languages, then truncate to 1 subarray and/or append one of k rows '
                      '(through the real API), then readcode again: the second program must describe the array as it is '
                      'now (a per-handle cache keyed too coarsely is caught); lengths 1..2^20'),
            Ob('RDENOTE', 'h_ragged_code', splits=splits, timeout=T, replay='replay_ragged_code', stub_readme=False,
               sym='n (number of subarrays), N, atom extents a_j, S <= E (index row of subarray k), K (requested k)',
               bounds='9 languages x 13 value types x index types x atom rank 0..2 (thorough 0..3); n, N, atom extents, the '
                      'index row (S, E) with S <= E (zero-length subarrays are values) and the requested k are symbolic; '
                      '3 path modes; outside: the truth of the indexing rules encoded in vf/lang/raggedcode.py')]
