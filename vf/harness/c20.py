"""C20 - DataDir never modifies protected files and round-trips user files."""
from ..runner import Ob
from .common import *
from .. import replay as rp
from .c03 import ASSUMPTIONS as _A
from .c04 import RA

PROPERTY = 'C20'
ASSUMPTIONS = _A + ['F-posix lexical path resolution of the model FS (".", "..", repeated and trailing "/", '
                    'ENOTDIR for "file/") decides whether a spelling denotes a protected node',
                    'DataDir is generic in the protected names: the obligation uses the short names '
                    '{"a" (file), "b" (directory with a file, like values/)} so that spellings stay short strings; '
                    'that Array / RaggedArray pass exactly their constituent names is checked concretely']
D = loader.load(env=True, stub_readme=True)
np = symnp
ALPHABET = 'ab./'
METHODS = ['write_txt', 'write_jsonfile', 'write_jsondict', 'update_jsondict', 'delete_files',
           'open_w', 'open_a', 'open_x', 'open_r+', 'open_rb+', 'open_wb', 'open_ab']


def build(w):
    d = w.mkdirs('/w/x')
    fa = File()
    fa.text = JsonDoc({'protected': 1})
    fa.bin = None
    d.entries['a'] = fa
    db = Dir()
    fb = File()
    fb.text = 'inner protected'
    fb.bin = None
    db.entries['a'] = fb
    d.entries['b'] = db
    u = File()
    u.text = JsonDoc({'user': 1})
    u.bin = None
    d.entries['u'] = u
    return d, fa, db, fb


def call(dd, method, name, overwrite):
    if method == 'write_txt':
        dd.write_txt(name, 'new text', overwrite=overwrite)
    elif method == 'write_jsonfile':
        dd.write_jsonfile(name, [1, 2], overwrite=overwrite)
    elif method == 'write_jsondict':
        dd.write_jsondict(name, {'n': 1}, overwrite=overwrite)
    elif method == 'update_jsondict':
        dd.update_jsondict(name, {'n': 1})
    elif method == 'delete_files':
        dd.delete_files([name])
    else:
        mode = method[5:]
        with dd.open_file(name, mode) as f:
            if 'b' not in mode:
                f.write('x')


def h_protect(f: str, probe: int, method='write_txt', aspath=False, overwrite=True, L=4,
              _gate=None, _small=False):
    """any spelling f (|f| <= L over {a, b, ., /}) through a public writer of a DataDir whose
    protected paths are {'a' (file), 'b' (directory)}"""
    assume(len(f) <= L)
    for ch in f:
        assume(ch == 'a' or ch == 'b' or ch == '.' or ch == '/')
    w = new_world()
    d, fa, db, fb = build(w)
    dd = D.datadir.DataDir('/w/x', protectedpaths={'a', 'b'})
    before_a, before_b = snap(fa), snap(db)
    # does the spelling denote a protected node (or something below one)?
    target_protected = False
    if f != '':
        try:
            full = '/w/x/' + f if not f.startswith('/') else f
            parent, name, node = w._walk(full, follow_last=True)
            if node is fa or node is db or node is fb:
                target_protected = True
            elif node is None and parent is db:
                target_protected = True
        except (FileNotFoundError, NotADirectoryError):
            target_protected = False
    name = symfs.Path(f) if aspath else f
    try:
        call(dd, method, name, overwrite)
        raised = None
    except Exception as e:
        raised = e
    na = w.lookup('/w/x/a')
    nb = w.lookup('/w/x/b')
    if na is None or not snap_same(before_a, snap(na), probe):
        raise Violation(f'{method}: the protected file was changed or removed through spelling', f=f)
    if nb is None or not snap_same(before_b, snap(nb), probe):
        raise Violation(f'{method}: the protected directory was changed through spelling', f=f)
    if target_protected:
        reach('protected-target')
        if raised is None:
            raise Violation(f'{method}: a spelling of a protected name did not raise', f=f)
        if not isinstance(raised, OSError):
            raise Violation(f'{method}: a spelling of a protected name raised {type(raised).__name__}, '
                            f'not OSError', f=f)
    reach('end')


SEGS = ['.', '..', 'x', 'b', '']          # 'x' is the NAME of the data directory itself (detours ../x/..)
FINALS = ['a', 'b', 'b/a', 'b/new', 'u']


def h_detour(g1: int, g2: int, g3: int, fin: int, absolute: bool, probe: int, method='write_txt', aspath=False,
             _gate=None, _small=False):
    """spellings built from up to three leading segments out of {., .., x (the directory's own name), b, ''}
    followed by a final name; optionally as an ABSOLUTE path of the data directory"""
    assume(0 <= g1 < len(SEGS) and 0 <= g2 < len(SEGS) and 0 <= g3 < len(SEGS) and 0 <= fin < len(FINALS))
    parts = []
    for g in (g1, g2, g3):
        for i, sname in enumerate(SEGS):
            if g == i and not (sname == '' and not parts):
                parts.append(sname)
    final = None
    for i, fname in enumerate(FINALS):
        if fin == i:
            final = fname
    f = '/'.join(parts + [final])
    if absolute:
        f = '/w/x/' + f
    w = new_world()
    d, fa, db, fb = build(w)
    dd = D.datadir.DataDir('/w/x', protectedpaths={'a', 'b'})
    before_a, before_b = snap(fa), snap(db)
    target_protected = False
    try:
        full = f if f.startswith('/') else '/w/x/' + f
        parent, name, node = w._walk(full, follow_last=True)
        if node is fa or node is db or node is fb or (node is None and parent is db):
            target_protected = True
    except (FileNotFoundError, NotADirectoryError):
        pass
    name = symfs.Path(f) if aspath else f
    try:
        call(dd, method, name, True)
        raised = None
    except Exception as e:
        raised = e
    na, nb = w.lookup('/w/x/a'), w.lookup('/w/x/b')
    if na is None or not snap_same(before_a, snap(na), probe) or nb is None or not snap_same(before_b, snap(nb), probe):
        raise Violation(f'{method}: a protected file was changed or removed through the spelling {f!r}')
    if target_protected:
        reach('protected-target')
        if not isinstance(raised, OSError):
            raise Violation(f'{method}: the spelling {f!r} denotes a protected file but the call did not raise OSError')
    reach('end')


def h_delete_mixed(first_protected: bool, probe: int, _gate=None, _small=False):
    """delete_files with a protected name among user files: OSError AND nothing removed"""
    w = new_world()
    d, fa, db, fb = build(w)
    dd = D.datadir.DataDir('/w/x', protectedpaths={'a', 'b'})
    dd.write_txt('n1.txt', 'one')
    dd.write_txt('n2.txt', 'two')
    before = snap(d)
    names = ['a', 'n1.txt', 'n2.txt'] if first_protected else ['n1.txt', 'a', 'n2.txt']
    try:
        dd.delete_files(names)
        raise Violation('delete_files with a protected name did not raise')
    except OSError:
        pass
    if not snap_same(before, snap(d), probe):
        raise Violation('delete_files raised for a protected name but had already removed other files')
    reach('end')


def h_user(overwrite: bool, exists: bool, probe: int, method='write_txt', _gate=None, _small=False):
    """user files: round trip, overwrite gate, delete_files removes exactly the named ones"""
    w = new_world()
    d, fa, db, fb = build(w)
    dd = D.datadir.DataDir('/w/x', protectedpaths={'a', 'b'})
    if exists:
        if method == 'write_txt':
            dd.write_txt('n.txt', 'old')
        else:
            dd.write_jsondict('n.txt', {'old': 1})
    before = snap(d)
    try:
        if method == 'write_txt':
            dd.write_txt('n.txt', 'héllo', overwrite=overwrite)
        else:
            dd.write_jsondict('n.txt', {'k': [1, {'z': None}], 't': (1, 2)}, overwrite=overwrite)
        raised = None
    except Exception as e:
        raised = e
    if exists and not overwrite:
        if raised is None:
            raise Violation('existing user file replaced without overwrite=True')
        if not snap_same(before, snap(d), probe):
            raise Violation('refused write changed the directory')
        reach('refused')
    else:
        if raised is not None:
            raise Violation(f'user file write raised {type(raised).__name__}')
        if method == 'write_txt':
            if dd.read_txt('n.txt') != 'héllo':
                raise Violation('write_txt / read_txt do not round trip')
        else:
            if dd.read_jsondict('n.txt') != {'k': [1, {'z': None}], 't': [1, 2]}:
                raise Violation('write_jsondict / read_jsondict do not round trip')
        reach('written')
        dd.write_txt('other.txt', 'o', overwrite=True)
        dd.delete_files(['n.txt', 'missing.txt'])
        if w.lookup('/w/x/n.txt') is not None or w.lookup('/w/x/other.txt') is None:
            raise Violation('delete_files did not remove exactly the named files')
    if not snap_same(snap(fa), before[1]['a'], probe) or not snap_same(snap(db), before[1]['b'], probe):
        raise Violation('protected files changed')
    reach('end')


def h_names(_gate=None, _small=False):
    """Array and RaggedArray hand exactly their constituent names to DataDir"""
    w = new_world()
    put_array(D, w, '/w/arr', 2, 'int32', 'little', ())
    put_ragged(D, w, '/w/rag', [1], 'int32', 'little', ())
    a = D.array.Array('/w/arr')
    r = RA.RaggedArray('/w/rag')
    if set(a.datadir.protectedfiles) != {'arrayvalues.bin', 'arraydescription.json', 'README.txt',
                                         'metadata.json'}:
        raise Violation('Array protects another set of names', got=sorted(a.datadir.protectedfiles))
    if set(r.datadir.protectedfiles) != {'values', 'indices', 'arraydescription.json', 'README.txt',
                                         'metadata.json'}:
        raise Violation('RaggedArray protects another set of names', got=sorted(r.datadir.protectedfiles))
    for dd, names in ((a.datadir, ['arrayvalues.bin', './README.txt', 'x/../arraydescription.json']),
                      (r.datadir, ['values/arrayvalues.bin', 'indices/README.txt', './values/new.txt',
                                   'values'])):
        for nm in names:
            before = snap(w.lookup('/w'))
            try:
                dd.write_txt(nm, 'oops', overwrite=True)
                raise Violation('a constituent file of the array was writable through DataDir', name=nm)
            except OSError:
                pass
            if not snap_same(before, snap(w.lookup('/w')), 0):
                raise Violation('refused write changed files', name=nm)
    reach('end')


# ---- replay ----------------------------------------------------------------------------------------------
def replay_protect(cex, d):
    import os
    import hashlib
    import pathlib
    import warnings
    warnings.simplefilter('ignore')
    darr, np_ = rp.real()
    fx = dict(d.get('fixed') or {})
    fx.update(cex)
    ob = d.get('ob') or d.get('obligation')
    probs = []

    def tree(p):
        out = {}
        for dp, dns, fns in os.walk(p):
            for fn in fns:
                out[os.path.relpath(os.path.join(dp, fn), p)] = hashlib.sha256(
                    open(os.path.join(dp, fn), 'rb').read()).hexdigest()
        return out
    with rp.scratch() as tmp:
        if ob == 'P-delete-mixed':
            x = tmp + '/x'
            os.makedirs(x + '/b')
            open(x + '/a', 'w').write('p')
            open(x + '/n1.txt', 'w').write('one')
            open(x + '/n2.txt', 'w').write('two')
            dd = darr.DataDir(x, protectedpaths={'a', 'b'})
            names = ['a', 'n1.txt', 'n2.txt'] if fx['first_protected'] else ['n1.txt', 'a', 'n2.txt']
            before = tree(x)
            try:
                dd.delete_files(names)
                probs.append('did not raise')
            except OSError:
                pass
            if tree(x) != before:
                probs.append(f'delete_files({names}) raised but removed {sorted(set(before) - set(tree(x)))}')
        elif ob == 'P-detour':
            x = tmp + '/x'
            os.makedirs(x + '/b')
            open(x + '/a', 'w').write('{"protected": 1}')
            open(x + '/b/a', 'w').write('inner protected')
            open(x + '/u', 'w').write('{"user": 1}')
            dd = darr.DataDir(x, protectedpaths={'a', 'b'})
            parts = []
            for g in (int(fx['g1']), int(fx['g2']), int(fx['g3'])):
                if not (SEGS[g] == '' and not parts):
                    parts.append(SEGS[g])
            f = '/'.join(parts + [FINALS[int(fx['fin'])]])
            if fx['absolute']:
                f = x + '/' + f
            prot_before = {k: v for k, v in tree(x).items() if k == 'a' or k.startswith('b/')}
            real = os.path.realpath(os.path.join(x, f))
            target_protected = real == x + '/a' or real == x + '/b' or real.startswith(x + '/b/')
            name = pathlib.Path(f) if fx.get('aspath') else f
            m = fx['method']
            try:
                if m == 'write_txt':
                    dd.write_txt(name, 'new text', overwrite=True)
                elif m == 'delete_files':
                    dd.delete_files([name])
                elif m == 'write_jsondict':
                    dd.write_jsondict(name, {'n': 1}, overwrite=True)
                else:
                    with dd.open_file(name, m[5:]) as fh:
                        fh.write('x')
                raised = None
            except Exception as e:
                raised = e
            prot_after = {k: v for k, v in tree(x).items() if k == 'a' or k.startswith('b/')}
            if prot_after != prot_before:
                probs.append(f'{m}({name!r}) changed protected files')
            if target_protected and not isinstance(raised, OSError):
                probs.append(f'{m}({name!r}) denotes a protected file but raised {type(raised).__name__ if raised else None}')
        elif ob == 'P-names':
            a = darr.asarray(tmp + '/arr', [1, 2])
            r = darr.asraggedarray(tmp + '/rag', [[1]])
            for dd, names, root in ((a.datadir, ['arrayvalues.bin', './README.txt', 'x/../arraydescription.json'], tmp + '/arr'),
                                    (r.datadir, ['values/arrayvalues.bin', 'indices/README.txt', './values/new.txt', 'values'], tmp + '/rag')):
                for nm in names:
                    before = tree(root)
                    try:
                        dd.write_txt(nm, 'oops', overwrite=True)
                        probs.append(f'write_txt({nm!r}) accepted')
                    except OSError:
                        pass
                    except Exception as e:
                        probs.append(f'write_txt({nm!r}) raised {type(e).__name__}')
                    if tree(root) != before:
                        probs.append(f'write_txt({nm!r}) changed the array files')
        else:
            x = tmp + '/x'
            os.makedirs(x + '/b')
            open(x + '/a', 'w').write('{"protected": 1}')
            open(x + '/b/a', 'w').write('inner protected')
            open(x + '/u', 'w').write('{"user": 1}')
            dd = darr.DataDir(x, protectedpaths={'a', 'b'})
            f = fx['f']
            prot_before = {k: v for k, v in tree(x).items() if k == 'a' or k.startswith('b/')}
            target = os.path.normpath(os.path.join(x, f)) if f else None
            real = os.path.realpath(os.path.join(x, f)) if f else None
            target_protected = bool(f) and (real == x + '/a' or real == x + '/b' or real.startswith(x + '/b/'))
            name = pathlib.Path(f) if fx.get('aspath') else f
            m = fx['method']
            try:
                if m == 'write_txt':
                    dd.write_txt(name, 'new text', overwrite=fx['overwrite'])
                elif m == 'write_jsonfile':
                    dd.write_jsonfile(name, [1, 2], overwrite=fx['overwrite'])
                elif m == 'write_jsondict':
                    dd.write_jsondict(name, {'n': 1}, overwrite=fx['overwrite'])
                elif m == 'update_jsondict':
                    dd.update_jsondict(name, {'n': 1})
                elif m == 'delete_files':
                    dd.delete_files([name])
                else:
                    mode = m[5:]
                    with dd.open_file(name, mode) as fh:
                        if 'b' not in mode:
                            fh.write('x')
                raised = None
            except Exception as e:
                raised = e
            prot_after = {k: v for k, v in tree(x).items() if k == 'a' or k.startswith('b/')}
            if prot_after != prot_before:
                probs.append(f'{m}({name!r}) changed protected files: {sorted(set(prot_before.items()) ^ set(prot_after.items()))[:2]}')
            if target_protected and not isinstance(raised, OSError):
                probs.append(f'{m}({name!r}) denotes a protected file but raised {type(raised).__name__ if raised else None}')
    if probs:
        return {'reproduced': True, 'detail': '; '.join(probs[:4])}
    return {'reproduced': False, 'detail': 'real DataDir protects it'}


def obligations(tier):
    thorough = tier == 'thorough'
    L = 5 if thorough else 4
    T = 1500 if thorough else 280
    splits = []
    for i, m in enumerate(METHODS):
        for aspath in ((False, True) if thorough or m in ('write_txt', 'delete_files', 'open_w') else ((i % 2 == 0),)):
            splits.append(dict(method=m, aspath=aspath, overwrite=True, L=L, _must=('end', 'protected-target')))
    obs = [Ob('P-spelling', 'h_protect', splits=splits, timeout=T, replay='replay_protect', per_path_timeout=60,
              sym='f : str (the file name argument), probe',
              bounds=f'|f| <= {L} over the alphabet {{a, b, ., /}} (covers "./a", "a/", "b/a", "b/..", ".//a", '
                     f'"b/../a" (len 6: outside), ...), wrapped as str or Path; protected = {{file "a", directory "b"}}; '
                     f'12 writer entry points; outside: longer names, symlinked directories, case-folding file systems'),
           Ob('P-detour', 'h_detour',
              splits=[dict(method=m, aspath=ap) for m in ('write_txt', 'delete_files', 'write_jsondict', 'open_w')
                      for ap in (False, True)],
              timeout=T, replay='replay_protect', must_reach=('end', 'protected-target'),
              sym='g1, g2, g3 (leading segments), fin (final name), absolute, probe',
              bounds="spellings = up to 3 segments from {., .., <own directory name>, b, ''} + final in {a, b, b/a, b/new, u}, "
                     "relative or absolute: covers '../x/a', 'b/../a', './/b/a', '/w/x/a' ..."),
           Ob('P-delete-mixed', 'h_delete_mixed', splits=[{}], timeout=120, replay='replay_protect',
              sym='first_protected, probe', bounds='delete_files([user, protected, user]) in both orders'),
           Ob('P-user', 'h_user', splits=[dict(method=m) for m in ('write_txt', 'write_jsondict')],
              timeout=120, must_reach=('end', 'refused', 'written'), replay=None, sym='overwrite, exists',
              bounds='user file round trip / overwrite gate / delete_files'),
           Ob('P-names', 'h_names', splits=[{}], timeout=120, replay='replay_protect', sym='(none: structural)',
              bounds='concrete: the protected sets of Array and RaggedArray and four spellings each')]
    return obs


def conformance(tier):
    from ..conformance import scenarios
    return scenarios.run(['datadir'])
