"""C08 - README.txt documentation is current after every operation."""
from ..runner import Ob
from .common import *
from .. import replay as rp
from .c03 import dt_of, ASSUMPTIONS as _A

PROPERTY = 'C08'
ASSUMPTIONS = _A + ['line wrapping is layout: text containing symbolic numbers is left unwrapped on both sides of the '
                    'comparison (textwrap.fill is applied identically by Darr on both)',
                    'two texts are equal iff their literal parts are equal strings and the numbers at corresponding '
                    'positions are equal as terms (decided by z3)']
# README generation is the subject: load WITHOUT the README stub, into its own package
D = loader.load(env=True, stub_readme=False, pkg='darrsym_readme')
np = symnp
RA = D.raggedarray


def mk(form, k, atom, numtype, bo, idx):
    src = ('in', idx)
    if form == 'same':
        return np.ndarray(dt_of(numtype, bo), (k,) + atom, Seq.of(src, k))
    return np.ndarray(dt_of('float64' if numtype != 'float64' else 'int32', 'little'), (k,) + atom,
                      Seq.of(src, k))


def readme_current_array(w, path, what):
    node = w.lookup(path + '/README.txt')
    if node is None:
        raise Violation(f'{what}: README.txt missing in {path}')
    fresh = D.array.Array(path)
    want = D.array.readcodetxt(fresh)
    ok, why = holes.text_equal(node.text, want)
    if not ok:
        raise Violation(f'{what}: README.txt of {path} is not the documentation of the current state: {why}')
    has_md = w.lookup(path + '/metadata.json') is not None
    if ("'metadata.json'" in want) != has_md:
        raise Violation(f'{what}: README mentions metadata.json iff metadata exist: violated')


def readme_current_ragged(w, path, what):
    node = w.lookup(path + '/README.txt')
    if node is None:
        raise Violation(f'{what}: ragged README.txt missing')
    fresh = RA.RaggedArray(path)
    want = RA.readcodetxt(fresh)
    ok, why = holes.text_equal(node.text, want)
    if not ok:
        raise Violation(f'{what}: ragged README.txt is not the documentation of the current state: {why}')
    readme_current_array(w, path + '/values', what + ' values/')
    readme_current_array(w, path + '/indices', what + ' indices/')


def fill_readmes_array(w, path):
    """pre-state README = the documentation of the pre-state (so that a stale text is detectable)"""
    a = D.array.Array(path)
    node = w.lookup(path + '/README.txt')
    node.text = D.array.readcodetxt(a)


def fill_readmes_ragged(w, path):
    fill_readmes_array(w, path + '/values')
    fill_readmes_array(w, path + '/indices')
    r = RA.RaggedArray(path)
    w.lookup(path + '/README.txt').text = RA.readcodetxt(r)


def h_array(n: int, k: int, idx: int, op='append', numtype='int32', bo='little', atom=(),
            _gate=None, _small=False):
    assume(0 <= n <= BIG and 0 <= k <= BIG)
    small(_small, n, k, idx)
    w = new_world()
    md = {'k': 1} if op in ('md-delete', 'md-popitem', 'md-del', 'copy') else None
    put_array(D, w, '/w/a', n, numtype, bo, atom, metadata=md)
    fill_readmes_array(w, '/w/a')
    a = D.array.Array('/w/a', accessmode='r+')
    if op == 'append':
        a.append(mk('cast', k, atom, numtype, bo, 1))
    elif op == 'iterappend':
        a.iterappend([mk('same', k, atom, numtype, bo, 1), mk('cast', 1, atom, numtype, bo, 2)])
    elif op == 'truncate':
        assume(0 <= idx < n)
        D.array.truncate_array(a, idx)
    elif op == 'md-create':
        a.metadata['x'] = 1
    elif op == 'md-update':
        a.metadata.update({'k': 2})
    elif op == 'md-delete':
        a.metadata.pop('k')
    elif op == 'md-popitem':
        a.metadata.popitem()
    elif op == 'md-del':
        del a.metadata['k']
    elif op == 'failed-append':
        try:
            a.iterappend([mk('same', k, atom, numtype, bo, 1),
                          np.ndarray(dt_of(numtype, bo), (1,) + atom + (2,), Seq.of(('bad',), 1))])
            raise Violation('bad append accepted')
        except Violation:
            raise
        except Exception:
            pass
    elif op == 'recreate':
        assume(k <= 1024 ** 2)
        D.array.asarray('/w/a', mk('same', k, (2,), 'float32', 'big', 1), overwrite=True)
    elif op == 'copy':
        assume(n <= 2 * 1024 ** 2 // max(1, symnp._prod(atom)))
        a.copy('/w/b')
        readme_current_array(w, '/w/b', 'copy')
    elif op == 'create':
        assume(k <= 1024 ** 2)
        D.array.create_array('/w/c', shape=(k,) + atom, dtype=numtype, metadata={'m': 1})
        readme_current_array(w, '/w/c', 'create_array')
    else:
        raise AssertionError(op)
    readme_current_array(w, '/w/a', f'after {op}')
    reach('end')


def h_ragged(l1: int, l2: int, l3: int, l4: int, l5: int, l6: int, l7: int, k: int,
             idx=0, K=1, op='append', numtype='float64', atom=(), _gate=None, _small=False):
    ls = [l1, l2, l3, l4, l5, l6, l7]
    for l in ls[:K]:
        assume(0 <= l <= RBIG // 16)        # K + 2 lengths must sum below 2^63 (int64 indices)
    for l in ls[K:]:
        assume(l == 0)
    assume(0 <= k <= RBIG // 16)
    small(_small, k, idx, *ls[:K])
    w = new_world()
    put_ragged(D, w, '/w/r', ls[:K], numtype, 'little', atom)
    fill_readmes_ragged(w, '/w/r')
    ra = RA.RaggedArray('/w/r', accessmode='r+')
    if op == 'append':
        ra.append(mk('same', k, atom, numtype, 'little', 1))
    elif op == 'iterappend':
        ra.iterappend([mk('same', k, atom, numtype, 'little', 1), mk('cast', 2, atom, numtype, 'little', 2)])
    elif op == 'failed-iterappend':
        try:
            ra.iterappend([mk('same', k, atom, numtype, 'little', 1),
                           np.ndarray(dt_of(numtype, 'little'), (1,) + atom + (2,), Seq.of(('bad',), 1))])
            raise Violation('bad ragged append accepted')
        except Violation:
            raise
        except Exception:
            pass
    elif op == 'truncate':
        assume(0 <= idx < K)
        RA.truncate_raggedarray(ra, idx)
    elif op == 'create':
        RA.create_raggedarray('/w/c', atom=atom, dtype=numtype)
        readme_current_ragged(w, '/w/c', 'create_raggedarray')
    elif op == 'as':
        assume(k <= 1000)
        RA.asraggedarray('/w/c', [mk('same', k, atom, numtype, 'little', 1), mk('same', 1, atom, numtype, 'little', 2)])
        readme_current_ragged(w, '/w/c', 'asraggedarray')
    elif op == 'copy':
        for l in ls[:K]:
            assume(l <= 1024 ** 2)
        ra.copy('/w/c')
        readme_current_ragged(w, '/w/c', 'ragged copy')
    else:
        raise AssertionError(op)
    readme_current_ragged(w, '/w/r', f'after ragged {op}')
    reach('end')


# ---- replay ---------------------------------------------------------------------------------------------
def replay_readme(cex, d):
    import os
    import warnings
    warnings.simplefilter('ignore')
    darr, np_ = rp.real()
    fx = dict(d.get('fixed') or {})
    fx.update(cex)
    ob = d.get('ob') or d.get('obligation')
    rp.real()
    from darr.array import readcodetxt as rct_a
    from darr.raggedarray import readcodetxt as rct_r
    probs = []

    def chk_a(p, tag):
        txt = open(p + '/README.txt', encoding='utf-8').read()
        want = rct_a(darr.Array(p))
        if txt != want:
            import difflib
            dl = [l for l in difflib.unified_diff(txt.splitlines(), want.splitlines(), lineterm='', n=0)][2:8]
            probs.append(f'{tag}: README.txt of {os.path.basename(p)} differs from readcodetxt(fresh): {dl}')

    def chk_r(p, tag):
        txt = open(p + '/README.txt', encoding='utf-8').read()
        want = rct_r(darr.RaggedArray(p))
        if txt != want:
            import difflib
            dl = [l for l in difflib.unified_diff(txt.splitlines(), want.splitlines(), lineterm='', n=0)][2:8]
            probs.append(f'{tag}: ragged README.txt differs from readcodetxt(fresh): {dl}')
        chk_a(p + '/values', tag)
        chk_a(p + '/indices', tag)
    atom = tuple(fx.get('atom', ()))
    with rp.scratch() as tmp:
        if ob.startswith('README-array'):
            n, k = int(fx['n']), int(fx['k'])
            if max(n, k) > 3000:
                return {'reproduced': False, 'skip': True, 'detail': 'too large'}
            nt, bo, op = fx['numtype'], fx['bo'], fx['op']
            md = {'k': 1} if op in ('md-delete', 'md-popitem', 'md-del', 'copy') else None
            orig = rp.values(np_, n, atom, nt, bo)
            a = darr.asarray(tmp + '/a', orig, metadata=md, accessmode='r+') if n else darr.create_array(
                tmp + '/a', shape=(0,) + atom, dtype=orig.dtype, metadata=md)
            other = 'float64' if nt != 'float64' else 'int32'
            if op == 'append':
                a.append(rp.values(np_, k, atom, other))
            elif op == 'iterappend':
                a.iterappend([rp.values(np_, k, atom, nt, bo), rp.values(np_, 1, atom, other)])
            elif op == 'truncate':
                darr.truncate_array(a, int(fx['idx']))
            elif op == 'md-create':
                a.metadata['x'] = 1
            elif op == 'md-update':
                a.metadata.update({'k': 2})
            elif op == 'md-delete':
                a.metadata.pop('k')
            elif op == 'md-popitem':
                a.metadata.popitem()
            elif op == 'md-del':
                del a.metadata['k']
            elif op == 'failed-append':
                try:
                    a.iterappend([rp.values(np_, k, atom, nt, bo), np_.zeros((1,) + atom + (2,), dtype=nt)])
                except Exception:
                    pass
            elif op == 'recreate':
                darr.asarray(tmp + '/a', rp.values(np_, k, (2,), 'float32', 'big'), overwrite=True)
            elif op == 'copy':
                a.copy(tmp + '/b')
                chk_a(tmp + '/b', 'copy')
            elif op == 'create':
                darr.create_array(tmp + '/c', shape=(k,) + atom, dtype=nt, metadata={'m': 1})
                chk_a(tmp + '/c', 'create')
            chk_a(tmp + '/a', f'after {op}')
        else:
            K = int(fx['K'])
            lens = [int(fx[f'l{i + 1}']) for i in range(K)]
            k = int(fx['k'])
            if max(lens + [k]) > 3000:
                return {'reproduced': False, 'skip': True, 'detail': 'too large'}
            nt, op = fx['numtype'], fx['op']
            subs = [rp.values(np_, l, atom, nt, 'little', 1 + 3 * i) for i, l in enumerate(lens)]
            ra = darr.asraggedarray(tmp + '/r', subs, accessmode='r+') if subs else darr.create_raggedarray(
                tmp + '/r', atom=atom, dtype=nt, accessmode='r+')
            other = 'float64' if nt != 'float64' else 'int32'
            if op == 'append':
                ra.append(rp.values(np_, k, atom, nt))
            elif op == 'iterappend':
                ra.iterappend([rp.values(np_, k, atom, nt), rp.values(np_, 2, atom, other)])
            elif op == 'failed-iterappend':
                try:
                    ra.iterappend([rp.values(np_, k, atom, nt), np_.zeros((1,) + atom + (2,), dtype=nt)])
                except Exception:
                    pass
            elif op == 'truncate':
                darr.truncate_raggedarray(ra, int(fx['idx']))
            elif op == 'create':
                darr.create_raggedarray(tmp + '/c', atom=atom, dtype=nt)
                chk_r(tmp + '/c', 'create_raggedarray')
            elif op == 'as':
                darr.asraggedarray(tmp + '/c', [rp.values(np_, k, atom, nt), rp.values(np_, 1, atom, nt)])
                chk_r(tmp + '/c', 'asraggedarray')
            elif op == 'copy':
                ra.copy(tmp + '/c')
                chk_r(tmp + '/c', 'copy')
            chk_r(tmp + '/r', f'after {op}')
    if probs:
        return {'reproduced': True, 'detail': '; '.join(probs[:3])[:1500]}
    return {'reproduced': False, 'detail': 'README files equal readcodetxt(fresh handle)'}


def obligations(tier):
    thorough = tier == 'thorough'
    T = 900 if thorough else 280
    aops = ['append', 'iterappend', 'truncate', 'md-create', 'md-update', 'md-delete', 'md-popitem', 'md-del', 'failed-append',
            'recreate', 'copy', 'create']
    cfgs = [('int32', 'little', ()), ('float64', 'big', (2,))]
    if thorough:
        cfgs += [('complex64', 'little', (2, 3)), ('float16', 'big', ()), ('uint64', 'big', (1,))]
    asplits = [dict(op=op, numtype=nt, bo=bo, atom=at) for i, op in enumerate(aops)
               for (nt, bo, at) in (cfgs if thorough else [cfgs[i % 2]])]
    obs = [Ob('README-array', 'h_array', splits=asplits, timeout=T, replay='replay_readme', stub_readme=False,
              sym='n, k, idx', bounds='n, k unbounded; one operation from {append, iterappend, truncate, metadata create/update/'
                                      'delete, failed append, overwrite=True re-creation, copy, create_array}; all offered '
                                      'languages are rendered by the real readcodetxt')]
    rops = ['append', 'iterappend', 'failed-iterappend', 'truncate', 'create', 'as', 'copy']
    rsplits = []
    for op in rops:
        for K in ((0, 1, 2, 4, 5, 6, 7) if thorough else (0, 1, 5, 6)):
            if op == 'truncate' and K == 0:
                continue
            if op in ('create', 'as') and K not in (0, 1):
                continue
            if op == 'copy' and K > 2 and not thorough:
                continue
            for idx in (range(K) if op == 'truncate' else (0,)):
                if op == 'truncate' and not thorough and idx not in (0, K - 1, 4):
                    continue
                rsplits.append(dict(op=op, K=K, idx=idx, numtype='float64' if K % 2 else 'int16',
                                    atom=() if K % 2 else (2,)))
    obs.append(Ob('README-ragged', 'h_ragged', splits=rsplits, timeout=T * 2, replay='replay_readme', stub_readme=False,
                  sym='l1..lK, k, idx',
                  bounds='K literal rows in {0,1,5,6} (thorough: 0..7) so that len <= 5, == 6 and > 6 - the three shapes of the '
                         '"first five and last" listing - occur; lengths unbounded; one operation from {append, iterappend, '
                         'truncate, create_raggedarray, asraggedarray, copy}; top-level, values/ and indices/ READMEs'))
    return obs


def conformance(tier):
    from ..conformance import scenarios
    return scenarios.run(['readme'], stub_readme=False)
