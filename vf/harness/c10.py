"""C10 - a failed RaggedArray append leaves exactly the completed subarrays."""
from ..runner import Ob
from .common import *
from .. import replay as rp
from .c03 import mk_input, dt_of, ASSUMPTIONS as _A
from .c04 import (lens_of, open_ragged, check_ragged, RA, _mk_real_ragged, _compare_ragged)

PROPERTY = 'C10'
ASSUMPTIONS = _A + ['write refusal = longest prefix below the byte limit is written, OSError raised',
                    'NumPy >= 2: a Python int outside the index dtype raises OverflowError']
D = loader.load(env=True, stub_readme=True)
np = symnp


class IterBoom(Exception):
    pass


def h_fail(l1: int, l2: int, l3: int, k1: int, k2: int, limit: int, q: int, probe: int,
           j=0, silent=False, K=1, F=2, kind='iterraise', numtype='float64', bo='little', atom=(), indextype='int64',
           via='iterappend', qneg=None, _gate=None, _small=False):
    """iterappend/append of up to F items; the failure strikes at item j (0-based).
    kinds: iterraise | wrongatom | unconvertible | overflow | vlimit | ilimit"""
    lens = lens_of(K, l1, l2, l3)
    ks = [k1, k2][:F]
    for k in ks:
        assume(0 <= k <= RBIG)
    for k in [k1, k2][F:]:
        assume(k == 0)
    assume(0 <= j <= F)
    if qneg is not None:
        assume(q < 0 if qneg else q >= 0)
    small(_small, *(lens + ks))
    w = new_world()
    if kind == 'overflow':
        # keep the pre-state representable in the (small) index type
        hi = symnp.INT_RANGE[indextype][1]
        tot = 0
        for l in lens:
            tot = tot + l
        assume(tot <= hi)
    ra, model = open_ragged(w, lens, numtype, bo, atom, indextype)
    N = 0
    for l in lens:
        N = N + l
    rbv = symnp._prod(atom) * ITEMSIZE[numtype]
    rbi = 2 * ITEMSIZE[indextype]
    vnode = w.lookup('/w/r/values/arrayvalues.bin')
    inode = w.lookup('/w/r/indices/arrayvalues.bin')
    items, refs = [], []
    for i in range(F):
        obj, r = mk_input('same' if i == 0 else 'cast', ks[i], atom, numtype, bo, i + 1)
        items.append(obj)
        refs.append(r)
    done = j
    wrote_before_failure = False
    if kind == 'vlimit':
        assume(N * rbv <= limit <= RBIG * 64)
        if _small:
            assume(limit <= 64 * rbv)
        vnode.limit = limit
        w.silent_refusal = silent
        size = N * rbv
        done = 0
        failing = False
        for i in range(F):
            if not failing:
                if size + ks[i] * rbv <= limit:
                    size = size + ks[i] * rbv
                    done = done + 1
                else:
                    failing = True
        assume(failing and j == done)
    elif kind == 'ilimit':
        assume(K * rbi <= limit <= (K + F) * rbi)
        inode.limit = limit
        w.silent_refusal = silent
        done = (limit - K * rbi) // rbi
        assume(done < F and j == done)
    elif kind == 'overflow':
        hi = symnp.INT_RANGE[indextype][1]
        end = N
        done = 0
        failing = False
        for i in range(F):
            if not failing:
                if end + ks[i] <= hi:
                    end = end + ks[i]
                    done = done + 1
                else:
                    failing = True
        assume(failing and j == done)
    else:
        assume(j < F or kind == 'iterraise')
    if kind not in ('vlimit', 'ilimit'):
        assume(not silent)
    if via == 'append':
        assume(j == 0)

    def gen():
        for i in range(F):
            if i == j and kind in ('iterraise', 'wrongatom', 'unconvertible'):
                if kind == 'iterraise':
                    raise IterBoom('boom')
                if kind == 'wrongatom':
                    batom = (3,) if atom == (2,) else (2,)
                    yield np.ndarray(dt_of(numtype, bo), (ks[i],) + batom, Seq.of(('bad',), ks[i]))
                else:
                    yield np.BadSeqItem(ValueError('could not convert string to float'))
                return
            yield items[i]
        if kind == 'iterraise' and j == F:
            raise IterBoom('boom at end')
    try:
        if via == 'append':
            ra.append(next(gen()))
        else:
            ra.iterappend(gen())
        raised = None
    except IterBoom as e:
        raised = e
    except Exception as e:
        raised = e
    if raised is None:
        raise Violation('the failing ragged append did not raise')
    vnode.limit = None
    inode.limit = None
    for i in range(F):
        if i < done:
            model = model + [refs[i]]
    check_ragged(w, ra, model, numtype, bo, atom, q, probe,
                 'after failed ragged append', 'both')
    reach('end')


_CHILD = r'''
import sys, json, os, resource, signal, warnings
warnings.simplefilter('ignore')
import numpy as np, darr
spec = json.loads(SPEC)
path = spec['path']; lens = spec['lens']; ks = spec['ks']; atom = tuple(spec['atom']); numtype = spec['numtype']
bo = spec['bo']; kind = spec['kind']; j = spec['j']; F = len(ks); ROW = spec['rowscale']
dt = np.dtype(numtype).newbyteorder('<' if bo == 'little' else '>')
def vals(k, base, t=None):
    cnt = k * ROW * int(np.prod(atom, dtype=int))
    v = (np.arange(cnt, dtype='int64') + base)
    tt = t or numtype
    if tt.startswith(('int', 'uint')) and np.iinfo(tt).max < 2**62:
        v = v % (int(np.iinfo(tt).max) + 1)
    return v.astype(tt).reshape((k * ROW,) + atom)
subs = [vals(l, 1 + 10 * i).astype(dt) for i, l in enumerate(lens)]
if subs:
    ra = darr.asraggedarray(path, subs, dtype=dt, indextype=spec['indextype'], accessmode='r+')
else:
    ra = darr.create_raggedarray(path, atom=atom, dtype=dt, indextype=spec['indextype'], accessmode='r+')
items = [vals(k, 1000 * (i + 1)).astype(dt) if i == 0 else vals(k, 1000 * (i + 1), 'float64' if numtype != 'float64' else 'int32') for i, k in enumerate(ks)]
class Boom(Exception): pass
def gen():
    for i in range(F):
        if i == j and kind in ('iterraise', 'wrongatom', 'unconvertible'):
            if kind == 'iterraise': raise Boom()
            if kind == 'wrongatom': yield np.zeros((max(ks[i], 1),) + ((3,) if atom == (2,) else (2,)), dtype=dt)
            else: yield ['x', 'y']
            return
        yield items[i]
    if kind == 'iterraise' and j == F: raise Boom()
if kind == 'ilimit':
    # a limit on the (tiny) indices file cannot be produced with RLIMIT_FSIZE without also refusing the
    # README / JSON writes: inject the refused write (partial bytes, then ENOSPC) into the indices append
    _orig = ra._indices._append
    _state = {'n': 0}
    def _faulty(array, fd):
        if _state['n'] == spec['done']:
            arr = ra._indices._checkarrayforappend(array)
            fd.seek(0, 2); fd.write(arr.tobytes()[:spec['partial']]); fd.flush()
            raise OSError(28, 'No space left on device')
        _state['n'] += 1
        return _orig(array, fd)
    ra._indices._append = _faulty
if kind == 'vlimit':
    signal.signal(signal.SIGXFSZ, signal.SIG_IGN)
    resource.setrlimit(resource.RLIMIT_FSIZE, (spec['limit_bytes'], resource.getrlimit(resource.RLIMIT_FSIZE)[1]))
out = {}
try:
    if spec['via'] == 'append': ra.append(next(gen()))
    else: ra.iterappend(gen())
    out['raised'] = None
except BaseException as e:
    out['raised'] = type(e).__name__
if kind == 'vlimit':
    resource.setrlimit(resource.RLIMIT_FSIZE, (resource.RLIM_INFINITY, resource.getrlimit(resource.RLIMIT_FSIZE)[1]))
model = subs + [np.asarray(items[i], dtype=dt) for i in range(spec['done'])]
try:
    b = darr.RaggedArray(path)
    out['opens'] = True
    out['len'] = len(b); out['want'] = len(model)
    out['equal'] = bool(len(b) == len(model) and all(b[i].shape == model[i].shape and b[i].tobytes() == model[i].tobytes() for i in range(len(model))))
    out['live_len'] = len(ra)
    top = json.load(open(path + '/arraydescription.json'))
    out['top_ok'] = bool(top['len'] == len(model) and top['size'] == sum(m.size for m in model))
    out['vsize'] = os.path.getsize(path + '/values/arrayvalues.bin'); out['vwant'] = sum(m.nbytes for m in model)
    out['isize'] = os.path.getsize(path + '/indices/arrayvalues.bin'); out['iwant'] = len(model) * 2 * np.dtype(spec['indextype']).itemsize
except BaseException as e:
    out['opens'] = False
    out['open_error'] = f'{type(e).__name__}: {e}'[:300]
print(json.dumps(out))
'''


def replay_fail(cex, d):
    import json
    fx = dict(d.get('fixed') or {})
    fx.update(cex)
    K, F = int(fx['K']), int(fx['F'])
    lens = [int(fx[f'l{i + 1}']) for i in range(K)]
    ks = [int(fx[f'k{i + 1}']) for i in range(F)]
    if max(lens + ks + [0]) > 3000:
        return {'reproduced': False, 'skip': True, 'detail': 'sizes too large to materialise'}
    atom = tuple(fx.get('atom', ()))
    numtype, indextype, kind = fx['numtype'], fx['indextype'], fx['kind']
    rbv = ITEMSIZE[numtype]
    for x in atom:
        rbv *= x
    rbi = 2 * ITEMSIZE[indextype]
    spec = dict(lens=lens, ks=ks, atom=atom, numtype=numtype, bo=fx['bo'], kind=kind, j=int(fx['j']),
                done=int(fx['j']), indextype=indextype, via=fx.get('via', 'iterappend'), rowscale=1)
    if kind == 'vlimit':
        rowscale = max(1, (65536 + rbv - 1) // rbv) if not fx.get('silent') else 1
        spec['rowscale'] = rowscale
        whole, extra = divmod(int(fx['limit']), rbv)
        spec['limit_bytes'] = whole * rbv * rowscale + extra
    elif kind == 'ilimit':
        if fx.get('silent'):
            return {'reproduced': False, 'skip': True,
                    'detail': 'a SILENT refusal on the indices file cannot be injected without bypassing the code under test'}
        room = int(fx['limit']) - K * rbi
        spec['done'] = room // rbi
        spec['partial'] = room % rbi
    with rp.scratch() as tmp:
        spec['path'] = tmp + '/r'
        rc, out, err = rp.run_child(_CHILD.replace('SPEC', repr(json.dumps(spec))))
        if rc != 0 or not out.strip():
            return {'reproduced': False, 'detail': f'replay child failed rc={rc}: {err[-700:]}'}
        o = json.loads(out.strip().splitlines()[-1])
    bad = []
    if o.get('raised') is None:
        bad.append('the failing append did not raise')
    if not o.get('opens'):
        bad.append(f"RaggedArray(path) raises after the failed append: {o.get('open_error')}")
    else:
        if not o.get('equal'):
            bad.append(f"subarrays differ from original + {spec['done']} completed (len {o.get('len')} vs {o.get('want')})")
        if not o.get('top_ok'):
            bad.append('top-level descriptor stale')
        if o.get('vsize') != o.get('vwant') or o.get('isize') != o.get('iwant'):
            bad.append(f"file sizes values {o.get('vsize')}/{o.get('vwant')} indices {o.get('isize')}/{o.get('iwant')}")
        if o.get('live_len') != o.get('want'):
            bad.append('live handle disagrees')
    if bad:
        return {'reproduced': True, 'detail': '; '.join(bad) + f' [spec {spec}]'}
    return {'reproduced': False, 'detail': f'real darr recovered correctly {o} [spec {spec}]'}


def obligations(tier):
    thorough = tier == 'thorough'
    T = 900 if thorough else 200
    Ks = (0, 1, 2) if thorough else (0, 1)
    obs = []
    for kind in ('iterraise', 'wrongatom', 'unconvertible', 'overflow', 'vlimit', 'ilimit'):
        splits = []
        for K in Ks:
            for (nt, bo, at) in ([('float64', 'little', ()), ('int16', 'big', (2,))] if thorough or K == 1
                                 else [('float64', 'little', ())]):
                if kind == 'wrongatom' and at == ():
                    at = (2,)
                its = ['int64']
                if kind == 'overflow':
                    its = [t for t in INDEXTYPES if t != 'int64'] if thorough else ['int8', 'uint16']   # int64 cannot overflow within the length bound
                for it in its:
                    for j in ((0, 1, 2) if kind == 'iterraise' else (0, 1)):
                        for qn in ((False, True) if K + j >= 2 else (None,)):
                            for sl in ((False, True) if kind in ('vlimit', 'ilimit') else (False,)):
                                if not thorough and kind == 'ilimit' and K == 1 and at != ():
                                    continue
                                splits.append(dict(K=K, F=2, j=j, kind=kind, numtype=nt, bo=bo, atom=at,
                                                   indextype=it, qneg=qn, silent=sl))
        if kind in ('wrongatom', 'overflow', 'vlimit'):
            splits.append(dict(K=1, F=1, kind=kind, numtype='float64', bo='little', atom=(2,),
                               indextype='int8' if kind == 'overflow' else 'int64', via='append'))
        obs.append(Ob(f'RFAIL-{kind}', 'h_fail', splits=splits, timeout=T * 2,
                      replay='replay_fail',
                      sym='l1..lK, k1, k2, j (failure position), limit (bytes), q, probe',
                      bounds=f'K in {list(Ks)} pre-existing subarrays (unbounded lengths), F=2 items per call, '
                             f'failure position 0..F, kind={kind}; outside: a second fault during rollback'))
    return obs


def conformance(tier):
    from ..conformance import scenarios
    return scenarios.run(['ragged_basic', 'ragged_fail'])
