"""C16 - deletion and creation never destroy data that is not theirs to destroy."""
from ..runner import Ob
from .common import *
from .. import replay as rp
from .c03 import mk_input, dt_of, ASSUMPTIONS as _A
from .c04 import RA

PROPERTY = 'C16'
ASSUMPTIONS = _A + ['F-posix: unlink of a directory fails (EISDIR), rmdir of a non-empty directory fails, '
                    'unlink of a symlink removes the link not the target; no hard links / mount points',
                    'N-tar: tarfile.open(mode x:...) refuses an existing file']
D = loader.load(env=True, stub_readme=True)
np = symnp
FOREIGN_KINDS = ['file', 'dir', 'dir-with-file', 'symlink-file', 'symlink-dir', 'collide-dir']


def place_foreign(w, dirpath, kind, tag, collide_name='metadata.json'):
    """put a foreign node of `kind` into dirpath; returns list of (path, snapshot) to re-check"""
    d = w.lookup(dirpath)
    checks = []
    if kind == 'file':
        f = File()
        f.text = 'user data ' + tag
        f.bin = None
        d.entries['notes_' + tag + '.txt'] = f
        checks.append(dirpath + '/notes_' + tag + '.txt')
    elif kind == 'dir':
        d.entries['sub_' + tag] = Dir()
        checks.append(dirpath + '/sub_' + tag)
    elif kind == 'dir-with-file':
        sd = Dir()
        f = File()
        f.text = 'nested ' + tag
        f.bin = None
        sd.entries['inner.txt'] = f
        d.entries['sub_' + tag] = sd
        checks.append(dirpath + '/sub_' + tag)
    elif kind == 'symlink-file':
        t = File()
        t.text = 'target ' + tag
        t.bin = None
        w.put('/w/outside/target_' + tag, t)
        d.entries['link_' + tag] = Symlink('/w/outside/target_' + tag)
        checks.append(dirpath + '/link_' + tag)
        checks.append('/w/outside/target_' + tag)
    elif kind == 'symlink-dir':
        td = w.mkdirs('/w/outside/tdir_' + tag)
        t = File()
        t.text = 'in target dir ' + tag
        t.bin = None
        td.entries['keep.txt'] = t
        d.entries['linkd_' + tag] = Symlink('/w/outside/tdir_' + tag)
        checks.append(dirpath + '/linkd_' + tag)
        checks.append('/w/outside/tdir_' + tag)
    elif kind == 'collide-dir':
        # a DIRECTORY carrying the name of one of Darr's files (another type than Darr's own)
        sd = Dir()
        f = File()
        f.text = 'user file in colliding dir'
        f.bin = None
        sd.entries['inner.txt'] = f
        d.entries[collide_name] = sd
        checks.append(dirpath + '/' + collide_name)
    return checks


def snaps_of(w, paths):
    out = []
    for p in paths:
        n = w.lookup(p, follow=False)
        out.append((p, None if n is None else snap(n)))
    return out


def foreign_intact(w, before, probe, what):
    for p, s in before:
        n = w.lookup(p, follow=False)
        if n is None:
            raise Violation(f'{what}: foreign node {p} was removed')
        if not snap_same(s, snap(n), probe):
            raise Violation(f'{what}: foreign node {p} was modified')


def h_delete(n: int, fk: int, second: bool, loc2: int, probe: int, target='array', loc=0,
             form='object', withmeta=False, _gate=None, _small=False):
    """delete_array / delete_raggedarray with 0..2 foreign nodes (first: kind fk at location loc;
    second: a plain file at symbolic location). fk == -1: no foreign node."""
    assume(0 <= n <= RBIG and -1 <= fk < len(FOREIGN_KINDS) and 0 <= loc2 <= 2)
    small(_small, n)
    w = new_world()
    md = {'k': 1} if withmeta is True else None
    if target == 'array':
        put_array(D, w, '/w/x', n, 'int32', 'little', (), metadata=md)
        locs = ['/w/x']
        assume(loc2 == 0)
    else:
        put_ragged(D, w, '/w/x', [n], 'int32', 'little', (), metadata=md)
        locs = ['/w/x', '/w/x/values', '/w/x/indices']
    if withmeta == 'empty':
        # a metadata.json holding {} (written by an earlier Darr version): Darr's own file all the same
        m = File()
        m.text = JsonDoc({})
        m.bin = None
        w.lookup('/w/x').entries['metadata.json'] = m
    checks = []
    nforeign = 0
    for i, k in enumerate(FOREIGN_KINDS):
        if fk == i:
            if k == 'collide-dir':
                assume(withmeta is False)
            checks += place_foreign(w, locs[loc], k, 'a')
            nforeign += 1
    if second:
        for j in range(len(locs)):
            if loc2 == j:
                checks += place_foreign(w, locs[j], 'file', 'b')
                nforeign += 1
    before = snaps_of(w, checks)
    if target == 'array':
        h = D.array.Array('/w/x', accessmode='r+')
        fn = D.array.delete_array
    else:
        h = RA.RaggedArray('/w/x', accessmode='r+')
        fn = RA.delete_raggedarray
    arg = h if form == 'object' else ('/w/x' if form == 'str' else symfs.Path('/w/x'))
    try:
        fn(arg)
        raised = None
    except Exception as e:
        raised = e
    foreign_intact(w, before, probe, 'delete')
    if nforeign > 0:
        if raised is None:
            raise Violation('delete with foreign content present did not raise')
        if not isinstance(raised, OSError):
            raise Violation(f'delete with foreign content raised {type(raised).__name__}, not OSError')
        reach('foreign')
    else:
        if raised is not None:
            raise Violation(f'delete of a clean array raised {type(raised).__name__}',
                            msg=holes.symstr(raised))
        if w.lookup('/w/x') is not None:
            raise Violation('after a successful delete something of the array remains')
        reach('clean')
    no_open_handles(w, 'after delete')
    reach('end')


def mk_target(w, kind, n):
    """what sits at /w/t before the call"""
    if kind == 'missing':
        return
    if kind == 'array':
        put_array(D, w, '/w/t', n, 'float64', 'little', (2,), metadata={'old': 1})
    elif kind == 'ragged':
        put_ragged(D, w, '/w/t', [n], 'float64', 'little', (), metadata={'old': 1})
    elif kind == 'plaindir':
        d = w.mkdirs('/w/t')
        f = File()
        f.text = 'user file'
        f.bin = None
        d.entries['user.txt'] = f
    elif kind == 'emptydir':
        w.mkdirs('/w/t')
    elif kind == 'file':
        f = File()
        f.text = 'a plain file'
        f.bin = None
        w.put('/w/t', f)


def h_nondarr(n: int, probe: int, kind='plaindir', fn='delete_array', form='path', _gate=None, _small=False):
    assume(0 <= n <= RBIG)
    w = new_world()
    mk_target(w, kind, n)
    target = '/w/t'
    if form == 'object':
        if kind == 'array':
            assume(n == 2)       # the refusal message formats the object (str(Array) prints its values): keep it concrete
        # the OBJECT of the other kind (opened writable) handed to the function
        target = RA.RaggedArray('/w/t', accessmode='r+') if kind == 'ragged' else D.array.Array('/w/t', accessmode='r+')
    before = snap(w.lookup('/w'))
    f = {'delete_array': D.array.delete_array, 'delete_raggedarray': RA.delete_raggedarray,
         'truncate_array': lambda p: D.array.truncate_array(p, 0),
         'truncate_raggedarray': lambda p: RA.truncate_raggedarray(p, 0)}[fn]
    try:
        f(target)
        raise Violation(f'{fn} accepted a {form} that is not a Darr array of the right kind ({kind})')
    except TypeError:
        pass
    except Violation:
        raise
    except Exception as e:
        raise Violation(f'{fn} on a {kind} raised {type(e).__name__}, not TypeError')
    if not snap_same(before, snap(w.lookup('/w')), probe):
        raise Violation(f'{fn} on a {kind} modified the file system')
    no_open_handles(w, 'after refusal')
    reach('end')


def call_creator(creator, overwrite, k):
    src = np.ndarray(dt_of('int32', 'little'), (k,), Seq.of(('new',), k))
    if creator == 'asarray':
        return D.array.asarray('/w/t', src, overwrite=overwrite)
    if creator == 'create_array':
        return D.array.create_array('/w/t', shape=(k,), dtype='int16', fill=1, overwrite=overwrite)
    if creator == 'asraggedarray':
        return RA.asraggedarray('/w/t', [src], overwrite=overwrite)
    if creator == 'create_raggedarray':
        return RA.create_raggedarray('/w/t', atom=(), dtype='int16', overwrite=overwrite)
    if creator in ('Array.copy', 'RaggedArray.copy', 'archive'):
        w = symfs.world()
        if creator == 'RaggedArray.copy':
            put_ragged(D, w, '/w/src', [k], 'int32', 'little', ())
            return RA.RaggedArray('/w/src').copy('/w/t', overwrite=overwrite)
        put_array(D, w, '/w/src', k, 'int32', 'little', ())
        if creator == 'Array.copy':
            return D.array.Array('/w/src').copy('/w/t', overwrite=overwrite)
        return D.array.Array('/w/src').archive(filepath='/w/t', overwrite=overwrite)
    raise AssertionError(creator)


def h_create(n: int, k: int, probe: int, creator='asarray', kind='array', overwrite=False,
             withforeign=False, _gate=None, _small=False):
    """a creating function called on an occupied path"""
    assume(0 <= n <= RBIG and 1 <= k <= 1000)
    w = new_world()
    mk_target(w, kind, n)
    checks = []
    if withforeign and kind in ('array', 'ragged', 'plaindir'):
        checks = place_foreign(w, '/w/t', 'file', 'a') + place_foreign(w, '/w/t', 'dir-with-file', 'c')
        if kind == 'ragged':
            # user files inside the values/ and indices/ subdirectories of the RaggedArray being replaced
            checks += place_foreign(w, '/w/t/values', 'file', 'v') + place_foreign(w, '/w/t/indices', 'file', 'i')
    if kind == 'plaindir':
        checks.append('/w/t/user.txt')
    if kind == 'file':
        checks.append('/w/t')
    before_foreign = snaps_of(w, checks)
    before_all = snap(w.lookup('/w/t')) if kind != 'missing' else None
    try:
        call_creator(creator, overwrite, k)
        raised = None
    except Exception as e:
        raised = e
    if not overwrite and kind != 'missing':
        if raised is None:
            raise Violation(f'{creator}(overwrite=False) on an existing {kind} did not raise')
        if not snap_same(before_all, snap(w.lookup('/w/t')), probe):
            raise Violation(f'{creator}(overwrite=False) on an existing {kind} modified it')
        reach('refused')
    else:
        # overwrite=True (or free path): foreign nodes are never removed or changed
        if creator == 'archive' and kind == 'file':
            pass          # the archive file itself is what overwrite=True replaces
        else:
            foreign_intact(w, before_foreign, probe, f'{creator}(overwrite={overwrite})')
        if kind == 'missing' and raised is not None:
            raise Violation(f'{creator} on a free path raised {type(raised).__name__}',
                            msg=holes.symstr(raised))
        reach('overwrote')
    reach('end')


class _Boom(Exception):
    pass


def h_create_fails(n: int, k: int, probe: int, creator='asarray', kind='plaindir', fail='iterraise',
                   _gate=None, _small=False):
    """a creating function with overwrite=True whose input FAILS part-way (the iterable raises, or yields an
    unconvertible chunk after the first): whatever it does to its own files, foreign content survives"""
    assume(0 <= n <= RBIG and 1 <= k <= 1000)
    w = new_world()
    mk_target(w, kind, n)
    checks = place_foreign(w, '/w/t', 'file', 'a') + place_foreign(w, '/w/t', 'dir-with-file', 'c')
    if kind == 'ragged':
        checks += place_foreign(w, '/w/t/values', 'file', 'v') + place_foreign(w, '/w/t/indices', 'file', 'i')
    if kind == 'plaindir':
        checks.append('/w/t/user.txt')
    before = snaps_of(w, checks)

    def gen():
        yield np.ndarray(dt_of('int32', 'little'), (k,), Seq.of(('new', 1), k))
        if fail == 'iterraise':
            raise _Boom('boom')
        yield np.BadSeqItem(ValueError('could not convert string to float'))
    try:
        if creator == 'asarray':
            D.array.asarray('/w/t', gen(), overwrite=True)
        else:
            RA.asraggedarray('/w/t', gen(), overwrite=True)
        raise Violation('the failing creation did not raise')
    except Violation:
        raise
    except Exception:
        pass
    if w.lookup('/w/t') is None:
        raise Violation(f'{creator}(overwrite=True) that failed part-way removed the whole directory')
    foreign_intact(w, before, probe, f'{creator}(overwrite=True) failing part-way')
    reach('end')


def h_stale_metadata(n: int, k: int, probe: int, creator='asarray', _gate=None, _small=False):
    """overwrite=True without metadata removes Darr's own stale metadata.json and nothing else"""
    assume(0 <= n <= RBIG and 1 <= k <= 1000)
    w = new_world()
    mk_target(w, 'array' if creator in ('asarray', 'create_array') else 'ragged', n)
    checks = place_foreign(w, '/w/t', 'file', 'a')
    before = snaps_of(w, checks)
    try:
        h = call_creator(creator, True, k)
    except Exception as e:
        raise Violation(f'{creator}(overwrite=True) over an existing array raised {type(e).__name__}',
                        msg=holes.symstr(e))
    foreign_intact(w, before, probe, 'overwrite')
    if w.lookup('/w/t/metadata.json') is not None:
        raise Violation('stale metadata.json of the previous occupant survived overwrite=True')
    if len(h.metadata) != 0:
        raise Violation('new array shows metadata of the previous occupant')
    reach('end')


# ---- replay ------------------------------------------------------------------------------------------------
def _tree(p):
    import os
    import hashlib
    out = {}
    if os.path.islink(p) or os.path.isfile(p):
        return {'.': ('link', os.readlink(p)) if os.path.islink(p) else hashlib.sha256(open(p, 'rb').read()).hexdigest()}
    for dp, dns, fns in os.walk(p, followlinks=False):
        for nm in dns + fns:
            fp = os.path.join(dp, nm)
            rel = os.path.relpath(fp, p)
            if os.path.islink(fp):
                out[rel] = ('link', os.readlink(fp))
            elif os.path.isdir(fp):
                out[rel] = 'dir'
            else:
                out[rel] = hashlib.sha256(open(fp, 'rb').read()).hexdigest()
    return out


def replay_c16(cex, d):
    import os
    import warnings
    warnings.simplefilter('ignore')
    darr, np_ = rp.real()
    fx = dict(d.get('fixed') or {})
    fx.update(cex)
    ob = d.get('ob') or d.get('obligation')
    n = min(int(fx['n']), 500)
    probs = []
    with rp.scratch() as tmp:
        def place(dirpath, kind, tag):
            paths = []
            if kind == 'file':
                open(f'{dirpath}/notes_{tag}.txt', 'w').write('user data')
                paths.append(f'{dirpath}/notes_{tag}.txt')
            elif kind == 'dir':
                os.mkdir(f'{dirpath}/sub_{tag}')
                paths.append(f'{dirpath}/sub_{tag}')
            elif kind == 'dir-with-file':
                os.mkdir(f'{dirpath}/sub_{tag}')
                open(f'{dirpath}/sub_{tag}/inner.txt', 'w').write('nested')
                paths.append(f'{dirpath}/sub_{tag}')
            elif kind == 'symlink-file':
                os.makedirs(tmp + '/outside', exist_ok=True)
                open(f'{tmp}/outside/target_{tag}', 'w').write('target')
                os.symlink(f'{tmp}/outside/target_{tag}', f'{dirpath}/link_{tag}')
                paths += [f'{dirpath}/link_{tag}', f'{tmp}/outside/target_{tag}']
            elif kind == 'symlink-dir':
                os.makedirs(f'{tmp}/outside/tdir_{tag}', exist_ok=True)
                open(f'{tmp}/outside/tdir_{tag}/keep.txt', 'w').write('keep')
                os.symlink(f'{tmp}/outside/tdir_{tag}', f'{dirpath}/linkd_{tag}')
                paths += [f'{dirpath}/linkd_{tag}', f'{tmp}/outside/tdir_{tag}']
            elif kind == 'collide-dir':
                os.mkdir(f'{dirpath}/metadata.json')
                open(f'{dirpath}/metadata.json/inner.txt', 'w').write('x')
                paths.append(f'{dirpath}/metadata.json')
            return paths

        def mk(kind, p):
            if kind == 'array':
                darr.asarray(p, rp.values(np_, max(n, 1), (2,), 'float64'), metadata={'old': 1})
            elif kind == 'ragged':
                darr.asraggedarray(p, [rp.values(np_, n, (), 'float64')], metadata={'old': 1})
            elif kind == 'plaindir':
                os.mkdir(p)
                open(p + '/user.txt', 'w').write('user file')
            elif kind == 'emptydir':
                os.mkdir(p)
            elif kind == 'file':
                open(p, 'w').write('a plain file')
        if ob.startswith('D-delete'):
            p = tmp + '/x'
            target = fx['target']
            md = {'k': 1} if fx.get('withmeta') is True else None
            if target == 'array':
                if n:
                    darr.asarray(p, rp.values(np_, n, (), 'int32'), metadata=md)
                else:
                    darr.create_array(p, shape=(0,), dtype='int32', metadata=md)
                locs = [p]
            else:
                darr.asraggedarray(p, [rp.values(np_, n, (), 'int32')], metadata=md)
                locs = [p, p + '/values', p + '/indices']
            if fx.get('withmeta') == 'empty':
                open(p + '/metadata.json', 'w').write('{}')
            paths = []
            fk = int(fx['fk'])
            if fk >= 0:
                paths += place(locs[int(fx['loc'])], FOREIGN_KINDS[fk], 'a')
            if fx['second']:
                paths += place(locs[int(fx['loc2'])], 'file', 'b')
            before = {q: _tree(q) for q in paths}
            h = (darr.Array if target == 'array' else darr.RaggedArray)(p, accessmode='r+')
            import pathlib
            arg = h if fx['form'] == 'object' else (p if fx['form'] == 'str' else pathlib.Path(p))
            try:
                (darr.delete_array if target == 'array' else darr.delete_raggedarray)(arg)
                raised = None
            except Exception as e:
                raised = e
            for q in paths:
                if not os.path.lexists(q):
                    probs.append(f'foreign {os.path.relpath(q, tmp)} removed')
                elif _tree(q) != before[q]:
                    probs.append(f'foreign {os.path.relpath(q, tmp)} modified')
            if paths:
                if not isinstance(raised, OSError):
                    probs.append(f'raised {type(raised).__name__ if raised else None} instead of OSError')
            else:
                if raised is not None:
                    probs.append(f'clean delete raised {raised!r}')
                if os.path.lexists(p):
                    probs.append('something remains after delete')
        elif ob.startswith('W-create-fails'):
            p = tmp + '/t'
            mk(fx['kind'], p)
            paths = place(p, 'file', 'a') + place(p, 'dir-with-file', 'c')
            if fx['kind'] == 'ragged':
                paths += place(p + '/values', 'file', 'v') + place(p + '/indices', 'file', 'i')
            if fx['kind'] == 'plaindir':
                paths.append(p + '/user.txt')
            before = {q: _tree(q) for q in paths}
            k = int(fx['k'])

            class Boom(Exception):
                pass

            def gen():
                yield rp.values(np_, k, (), 'int32')
                if fx['fail'] == 'iterraise':
                    raise Boom()
                yield ['x', 'y']
            try:
                if fx['creator'] == 'asarray':
                    darr.asarray(p, gen(), overwrite=True)
                else:
                    darr.asraggedarray(p, gen(), overwrite=True)
                probs.append('did not raise')
            except Exception:
                pass
            for q in paths:
                if not os.path.lexists(q):
                    probs.append(f'foreign {os.path.relpath(q, tmp)} was REMOVED by the failing creation')
                elif _tree(q) != before[q]:
                    probs.append(f'foreign {os.path.relpath(q, tmp)} modified')
        elif ob.startswith('D-nondarr'):
            p = tmp + '/t'
            mk(fx['kind'], p)
            before = _tree(tmp)
            f = {'delete_array': darr.delete_array, 'delete_raggedarray': darr.delete_raggedarray,
                 'truncate_array': lambda q: darr.truncate_array(q, 0),
                 'truncate_raggedarray': lambda q: darr.truncate_raggedarray(q, 0)}[fx['fn']]
            arg = p
            if fx.get('form') == 'object':
                arg = darr.RaggedArray(p, accessmode='r+') if fx['kind'] == 'ragged' else darr.Array(p, accessmode='r+')
            try:
                f(arg)
                probs.append('accepted')
            except TypeError:
                pass
            except Exception as e:
                probs.append(f'raised {type(e).__name__} not TypeError')
            if _tree(tmp) != before:
                probs.append('file system modified')
        else:
            p = tmp + '/t'
            kind = fx.get('kind', 'array')
            creator = fx['creator']
            if ob.startswith('W-stale'):
                kind = 'array' if creator in ('asarray', 'create_array') else 'ragged'
            mk(kind, p)
            paths = []
            if (fx.get('withforeign') or ob.startswith('W-stale')) and kind in ('array', 'ragged', 'plaindir'):
                paths += place(p, 'file', 'a')
                if not ob.startswith('W-stale'):
                    paths += place(p, 'dir-with-file', 'c')
                    if kind == 'ragged':
                        paths += place(p + '/values', 'file', 'v') + place(p + '/indices', 'file', 'i')
            if kind == 'plaindir':
                paths.append(p + '/user.txt')
            if kind == 'file':
                paths.append(p)
            beforef = {q: _tree(q) for q in paths}
            before_all = _tree(p) if kind != 'missing' else None
            overwrite = True if ob.startswith('W-stale') else bool(fx.get('overwrite'))
            k = int(fx['k'])
            src = rp.values(np_, k, (), 'int32')

            def call():
                if creator == 'asarray':
                    return darr.asarray(p, src, overwrite=overwrite)
                if creator == 'create_array':
                    return darr.create_array(p, shape=(k,), dtype='int16', fill=1, overwrite=overwrite)
                if creator == 'asraggedarray':
                    return darr.asraggedarray(p, [src], overwrite=overwrite)
                if creator == 'create_raggedarray':
                    return darr.create_raggedarray(p, atom=(), dtype='int16', overwrite=overwrite)
                if creator == 'RaggedArray.copy':
                    return darr.asraggedarray(tmp + '/src', [src]).copy(p, overwrite=overwrite)
                a = darr.asarray(tmp + '/src', src)
                if creator == 'Array.copy':
                    return a.copy(p, overwrite=overwrite)
                return a.archive(filepath=p, overwrite=overwrite)
            try:
                h = call()
                raised = None
            except Exception as e:
                raised = e
            if ob.startswith('W-stale'):
                if raised is not None:
                    probs.append(f'raised {raised!r}')
                elif os.path.exists(p + '/metadata.json'):
                    probs.append('stale metadata.json survived')
            elif not overwrite and kind != 'missing':
                if raised is None:
                    probs.append('did not raise')
                if _tree(p) != before_all:
                    probs.append('existing path modified')
            if not (creator == 'archive' and kind == 'file') and (overwrite or kind == 'missing'):
                for q in paths:
                    if not os.path.lexists(q) or _tree(q) != beforef[q]:
                        probs.append(f'foreign {os.path.relpath(q, tmp)} removed/modified')
    if probs:
        return {'reproduced': True, 'detail': '; '.join(probs[:5])}
    return {'reproduced': False, 'detail': 'real darr behaves as required'}


def obligations(tier):
    thorough = tier == 'thorough'
    T = 600 if thorough else 150
    obs = []
    dsplits = []
    for form in ('object', 'str', 'path'):
        for wm in (False, True):
            dsplits.append(dict(target='array', loc=0, form=form, withmeta=wm))
    for loc in (0, 1, 2):
        for form in (('object', 'str', 'path') if thorough else ('object', 'str')):
            dsplits.append(dict(target='ragged', loc=loc, form=form, withmeta=(loc == 1)))
    dsplits += [dict(target='array', loc=0, form='object', withmeta='empty'),
                dict(target='ragged', loc=0, form='object', withmeta='empty'),
                dict(target='ragged', loc=1, form='str', withmeta='empty')]
    obs.append(Ob('D-delete', 'h_delete', splits=dsplits, timeout=T, must_reach=('end', 'foreign', 'clean'),
                  replay='replay_c16', sym='n, fk (foreign kind -1..5), second, loc2, probe',
                  bounds='0..2 foreign nodes: first of kind {none, file, dir, dir with file, symlink->file, symlink->dir, '
                         'directory named metadata.json} at location {top, values/, indices/}; optional second plain file at a '
                         'symbolic location; array size unbounded; outside: hard links, mount points, symlinks NAMED like a Darr file'))
    nsplits = [dict(kind=k, fn=f) for k in ('plaindir', 'emptydir', 'file', 'missing')
               for f in ('delete_array', 'delete_raggedarray', 'truncate_array', 'truncate_raggedarray')]
    nsplits += [dict(kind='ragged', fn='delete_array'), dict(kind='ragged', fn='truncate_array'),
                dict(kind='array', fn='delete_raggedarray'), dict(kind='array', fn='truncate_raggedarray')]
    nsplits += [dict(kind='ragged', fn='delete_array', form='object'), dict(kind='ragged', fn='truncate_array', form='object'),
                dict(kind='array', fn='delete_raggedarray', form='object'),
                dict(kind='array', fn='truncate_raggedarray', form='object')]
    obs.append(Ob('D-nondarr', 'h_nondarr', splits=nsplits, timeout=T, replay='replay_c16', sym='n, probe',
                  bounds='target in {plain dir, empty dir, file, missing, array of the other kind - by path and as a writable object}'))
    creators = ['asarray', 'create_array', 'asraggedarray', 'create_raggedarray', 'Array.copy',
                'RaggedArray.copy', 'archive']
    csplits = []
    for c in creators:
        for kind in ('array', 'ragged', 'plaindir', 'emptydir', 'file', 'missing'):
            for ow in (False, True):
                if c == 'archive' and kind not in ('file', 'missing'):
                    continue
                if not thorough and ow and kind in ('emptydir',):
                    continue
                csplits.append(dict(creator=c, kind=kind, overwrite=ow, withforeign=(kind in ('array', 'ragged')),
                                    _must=('end', 'refused') if (not ow and kind != 'missing') else ('end', 'overwrote')))
    obs.append(Ob('W-create', 'h_create', splits=csplits, timeout=T, replay='replay_c16', sym='n, k, probe',
                  bounds='each of the 7 creating functions x previous occupant {Array with metadata, RaggedArray, plain dir, '
                         'empty dir, file, nothing} x overwrite flag; occupant sizes unbounded, created array 1<=k<=1000 rows'))
    obs.append(Ob('W-create-fails', 'h_create_fails',
                  splits=[dict(creator=c, kind=kd, fail=f) for c in ('asarray', 'asraggedarray')
                          for kd in ('array', 'ragged', 'plaindir') for f in ('iterraise', 'unconvertible')],
                  timeout=T, replay='replay_c16', sym='n, k, probe',
                  bounds='overwrite=True over {Array, RaggedArray, plain dir} holding a foreign file and a foreign directory; the '
                         'input iterable raises after the first chunk or yields an unconvertible chunk'))
    obs.append(Ob('W-stale-metadata', 'h_stale_metadata',
                  splits=[dict(creator=c) for c in creators[:4]], timeout=T, replay='replay_c16', sym='n, k, probe',
                  bounds='overwrite=True over an array with metadata.json and one foreign file'))
    return obs


def conformance(tier):
    from ..conformance import scenarios
    return scenarios.run(['foreign'])
