"""E1 driver: path exploration of a harness with CrossHair's state space, z3 deciding.

A harness is an ordinary Python function with type-annotated parameters (int / bool /
str).  The driver creates CrossHair symbolic proxies for the parameters, executes the
harness (and everything it calls, i.e. the real Darr source loaded by vf.loader) under
CrossHair's tracer, and repeats until CrossHair's search tree is *exhausted*.

Verdicts
--------
confirmed   tree exhausted, every leaf finished without Violation, >= 1 leaf reached the
            end of the harness (vacuity guard) and all labels in `must_reach` were hit.
violated    some path raised Violation -> arguments realised through the solver model
            (counterexample), to be replayed on the real code by the caller.
unknown     timeout / iteration cap / z3 'unknown' / realisation of an unbounded symbolic /
            ModelGap: inconclusive, never reported as success.
vacuous     exhausted but no path reached the end of the harness, or a must_reach label
            was never hit: machinery fault.
"""
import inspect
import sys
import time
import traceback
from time import process_time

import z3

from crosshair.core import (Patched, gen_args, deep_realize, ExceptionFilter,
                            realize)
from crosshair.core_and_libs import NoTracing, ResumedTracing  # noqa: F401 (registers libs)
from crosshair.statespace import (StateSpace, StateSpaceContext, RootNode, CallAnalysis,
                                  VerificationStatus)
from crosshair.tracers import COMPOSITE_TRACER
from crosshair.util import (IgnoreAttempt, UnexploredPath, NotDeterministic,
                            CrossHairValue, CrossHairInternal)


class Violation(Exception):
    """Raised by a harness when the property's assertion fails on the current path."""

    def __init__(self, what, **details):
        super().__init__(what)
        self.what = what
        self.details = details


class ModelGap(BaseException):
    """The environment model was asked for behaviour it does not implement.

    BaseException so that Darr's `except Exception` blocks cannot swallow it; the
    obligation becomes inconclusive."""


_REACHED = set()
_NOTES = []


def reach(label):
    with NoTracing():
        _REACHED.add(label)


def note(obj):
    """Record a (concrete) remark about the current path (kept for samples)."""
    with NoTracing():
        if len(_NOTES) < 50:
            _NOTES.append(obj)


def assume(cond):
    if not cond:
        raise IgnoreAttempt("assumption")


def is_symbolic(v):
    with NoTracing():
        return isinstance(v, CrossHairValue)


# ---- solver statistics: wrap z3.Solver.check in this process ---------------------------
class SolverStats:
    def __init__(self):
        self.queries = 0
        self.sat = 0
        self.unsat = 0
        self.unknown = 0
        self.seconds = 0.0

    def as_dict(self):
        return dict(queries=self.queries, sat=self.sat, unsat=self.unsat,
                    unknown=self.unknown, solver_s=round(self.seconds, 3))


STATS = SolverStats()
_orig_check = z3.Solver.check


def _counting_check(self, *a, **k):
    t0 = time.perf_counter()
    r = _orig_check(self, *a, **k)
    STATS.seconds += time.perf_counter() - t0
    STATS.queries += 1
    s = str(r)
    if s == 'sat':
        STATS.sat += 1
    elif s == 'unsat':
        STATS.unsat += 1
    else:
        STATS.unknown += 1
    return r


z3.Solver.check = _counting_check


# ---- realisation detector: an unbounded symbolic turned concrete is an enumeration, never a proof
REALIZED = []
_orig_fmv = StateSpace.find_model_value


def _fmv(self, expr, *a, **k):
    r = _orig_fmv(self, expr, *a, **k)
    if len(REALIZED) < 20:
        f = sys._getframe(1)
        while f is not None and ('crosshair' in f.f_code.co_filename):
            f = f.f_back
        if f is not None:
            REALIZED.append(f'{f.f_code.co_filename.split("/")[-1]}:{f.f_lineno} {str(expr)[:60]}')
    return r


StateSpace.find_model_value = _fmv


class Result:
    def __init__(self):
        self.status = 'unknown'
        self.reason = ''
        self.cex = None          # dict name -> concrete value
        self.what = None
        self.details = None
        self.paths = 0
        self.paths_ok = 0        # paths that ran to the end of the harness
        self.paths_ignored = 0
        self.paths_unknown = 0
        self.reached = []
        self.notes = []
        self.solver = {}
        self.wall_s = 0.0
        self.exhausted = False
        self.realized = []

    def as_dict(self):
        d = dict(self.__dict__)
        return d


def _realize_args(bound):
    out = {}
    for k, v in bound.arguments.items():
        try:
            out[k] = deep_realize(v)
        except Exception as e:  # pragma: no cover
            out[k] = f'<unrealisable {e!r}>'
    return out


def explore(fn, timeout=120.0, per_path_timeout=30.0, max_iterations=200000,
            must_reach=(), fixed=None):
    """Explore all paths of harness `fn`.  `fixed` = dict of concrete keyword arguments
    (runner case splits); the remaining annotated parameters become symbolic."""
    fixed = dict(fixed or {})
    sig = inspect.signature(fn)
    sym_params = [p for n, p in sig.parameters.items()
                  if n not in fixed and p.annotation in (int, bool, str, float)]
    for n, p in sig.parameters.items():
        if n not in fixed and p.annotation not in (int, bool, str, float):
            if p.default is inspect.Parameter.empty:
                raise TypeError(f'harness parameter {n} is neither symbolic nor fixed')
            fixed[n] = p.default
    sym_sig = sig.replace(parameters=sym_params)
    res = Result()
    _REACHED.clear()
    del REALIZED[:]
    del _NOTES[:]
    q0 = (STATS.queries, STATS.sat, STATS.unsat, STATS.unknown, STATS.seconds)
    t_start = time.perf_counter()
    cpu_start = process_time()
    search_root = RootNode()
    worst_unknown_reason = ''
    exhausted = False
    for i in range(1, max_iterations + 1):
        itr_start = process_time()
        if itr_start > cpu_start + timeout:
            worst_unknown_reason = f'timeout after {timeout}s cpu'
            break
        space = StateSpace(execution_deadline=itr_start + per_path_timeout,
                           model_check_timeout=per_path_timeout / 2,
                           search_root=search_root)
        res.paths += 1
        status = None
        violation = None
        with Patched(), COMPOSITE_TRACER, NoTracing(), StateSpaceContext(space):
            try:
                bound = gen_args(sym_sig)
                kwargs = dict(bound.arguments)
                kwargs.update(fixed)
                with ResumedTracing():
                    try:
                        fn(**kwargs)
                        ok = True
                    except Violation as v:
                        ok = False
                        violation = v
                        with NoTracing():
                            res.cex = _realize_args(bound)
                            res.cex.update(fixed)
                            res.what = str(deep_realize(v.what))
                            try:
                                res.details = deep_realize(v.details)
                            except Exception:
                                res.details = repr(v.details)
                if ok:
                    status = VerificationStatus.CONFIRMED
                    res.paths_ok += 1
                else:
                    status = VerificationStatus.REFUTED
            except IgnoreAttempt:
                status = None
                res.paths_ignored += 1
            except ModelGap as g:
                status = VerificationStatus.UNKNOWN
                res.paths_unknown += 1
                worst_unknown_reason = f'ModelGap: {g}'
            except UnexploredPath as u:
                status = VerificationStatus.UNKNOWN
                res.paths_unknown += 1
                worst_unknown_reason = f'{type(u).__name__}: {u}'
            except NotDeterministic:
                status = VerificationStatus.UNKNOWN
                res.paths_unknown += 1
                worst_unknown_reason = 'NotDeterministic'
                _top, exhausted = None, False
                break
            except CrossHairInternal as e:
                status = VerificationStatus.UNKNOWN
                res.paths_unknown += 1
                worst_unknown_reason = f'CrossHairInternal: {e}'
            except Exception as e:
                # an exception escaping the harness itself = harness/model bug
                res.status = 'error'
                res.reason = ''.join(traceback.format_exception(e))[-3000:]
                try:
                    res.cex = _realize_args(bound)
                    res.cex.update(fixed)
                except Exception:
                    pass
                break
            _top, exhausted = space.bubble_status(CallAnalysis(status))
        if violation is not None:
            res.status = 'violated'
            break
        if exhausted:
            break
    else:
        worst_unknown_reason = 'iteration cap'
    res.exhausted = bool(exhausted)
    res.reached = sorted(_REACHED)
    res.realized = sorted(set(REALIZED))[:10]
    res.notes = list(_NOTES)
    res.wall_s = round(time.perf_counter() - t_start, 3)
    res.solver = dict(queries=STATS.queries - q0[0], sat=STATS.sat - q0[1],
                      unsat=STATS.unsat - q0[2], unknown=STATS.unknown - q0[3],
                      solver_s=round(STATS.seconds - q0[4], 3))
    if res.status in ('violated', 'error'):
        return res
    if res.paths_unknown or not exhausted:
        res.status = 'unknown'
        res.reason = worst_unknown_reason or 'not exhausted'
        return res
    missing = [m for m in must_reach if m not in _REACHED]
    if res.paths_ok == 0 or missing:
        res.status = 'vacuous'
        res.reason = f'paths_ok={res.paths_ok} missing_labels={missing}'
        return res
    res.status = 'confirmed'
    return res
