"""Load the real Darr source from /repo's working tree into a private package `darrsym`
with the environment substituted (DESIGN.md 2.2).  Nothing is cached between runs: the
files are read, rewritten (AST) and compiled every time a check starts.

Rewrites are environment substitution only:
  import numpy as np / json / os / pathlib.Path / tarfile / shutil  -> vf.env models
  builtin open                                                       -> vf.env.symfs.open
  f-strings, str(x), 'lit'.format(...)                               -> hole-aware formatting
  every function gets a first statement __cov__('<module>.<qualname>') (functions_encoded)
"""
import ast
import hashlib
import os
import sys
import types

REPO = os.environ.get('DARR_REPO', '/repo')
PKG = 'darrsym'

MODULES = ['_version', 'utils', 'numtype', 'datadir', 'metadata', 'readcodearray', 'array',
           'readcoderaggedarray', 'raggedarray', '__init__']

IMPORT_MAP = {
    'numpy': 'vf.env.symnp',
    'json': 'vf.env.symjson',
    'os': 'vf.env.symos',
    'tarfile': 'vf.env.symtar',
    'shutil': 'vf.env.symshutil',
    'pathlib': 'vf.env.sympath',
}

COVERED = set()


def __cov__(name):
    COVERED.add(name)


class _Rewriter(ast.NodeTransformer):
    def __init__(self, modname, env):
        self.modname = modname
        self.env = env
        self.scope = []

    # ---- imports ----
    def visit_Import(self, node):
        out = []
        for a in node.names:
            if self.env and a.name in IMPORT_MAP:
                asname = a.asname or a.name
                tgt = IMPORT_MAP[a.name]
                pkg, mod = tgt.rsplit('.', 1)
                out.append(ast.ImportFrom(module=pkg, names=[ast.alias(mod, asname)], level=0))
            else:
                out.append(ast.Import(names=[a]))
        return out

    def visit_ImportFrom(self, node):
        if node.level == 0 and self.env and node.module in IMPORT_MAP:
            return ast.ImportFrom(module=IMPORT_MAP[node.module], names=node.names, level=0)
        if node.level == 1 and node.module == 'tests':
            return None
        return node

    # ---- formatting ----
    def visit_JoinedStr(self, node):
        self.generic_visit(node)
        if not self.env:
            return node
        parts = []
        for v in node.values:
            if isinstance(v, ast.Constant):
                parts.append(v)
            else:
                spec = v.format_spec
                if spec is None:
                    specnode = ast.Constant('')
                else:
                    specnode = spec   # already rewritten into a call (or constant)
                parts.append(ast.Tuple([v.value, ast.Constant(v.conversion), specnode],
                                       ast.Load()))
        return ast.Call(ast.Name('__symfmt__', ast.Load()), [ast.List(parts, ast.Load())], [])

    def visit_Call(self, node):
        self.generic_visit(node)
        if not self.env:
            return node
        f = node.func
        if isinstance(f, ast.Name) and f.id == 'str' and len(node.args) == 1 and not node.keywords:
            return ast.Call(ast.Name('__symstr__', ast.Load()), node.args, [])
        if isinstance(f, ast.Name) and f.id in ('int', 'float') and len(node.args) == 1 and not node.keywords:
            return ast.Call(ast.Name('__sym%s__' % f.id, ast.Load()), node.args, [])
        if isinstance(f, ast.Name) and f.id == 'dict' and len(node.args) == 1:
            return ast.Call(ast.Name('__symdict__', ast.Load()), node.args, node.keywords)
        if (isinstance(f, ast.Attribute) and f.attr == 'format'
                and isinstance(f.value, ast.Constant) and isinstance(f.value.value, str)):
            return ast.Call(ast.Name('__symformat__', ast.Load()), [f.value] + node.args,
                            node.keywords)
        return node

    # ---- coverage ----
    def _fn(self, node):
        self.scope.append(node.name)
        qual = '.'.join(self.scope)
        self.generic_visit(node)
        self.scope.pop()
        call = ast.Expr(ast.Call(ast.Name('__cov__', ast.Load()),
                                 [ast.Constant(f'{self.modname}.{qual}')], []))
        body = node.body
        idx = 0
        if (body and isinstance(body[0], ast.Expr) and isinstance(body[0].value, ast.Constant)
                and isinstance(body[0].value.value, str)):
            idx = 1
        node.body = body[:idx] + [call] + body[idx:]
        return node

    visit_FunctionDef = _fn
    visit_AsyncFunctionDef = _fn

    def visit_ClassDef(self, node):
        self.scope.append(node.name)
        self.generic_visit(node)
        self.scope.pop()
        return node


_loaded = {}


def _model_int(x):
    """builtin int(); model NumPy scalars/arrays hand out their (possibly symbolic) value."""
    from .env import symnp
    if isinstance(x, (symnp.generic, symnp.ndarray)):
        return x.__int__()
    return int(x)


def _model_float(x):
    from .env import symnp
    if isinstance(x, symnp.generic):
        return x.__float__()
    return float(x)


def _mapping_dict(*a, **k):
    """builtin dict(); CrossHair's replacement does not know the `keys()` protocol of
    mapping-like objects such as darr.MetaData."""
    if len(a) == 1 and not isinstance(a[0], dict) and hasattr(a[0], 'keys'):
        out = {}
        for key in a[0].keys():
            out[key] = a[0][key]
        out.update(k)
        return out
    return dict(*a, **k)


def source_digest():
    h = hashlib.sha256()
    for m in MODULES:
        with open(os.path.join(REPO, 'darr', m + '.py'), 'rb') as f:
            h.update(f.read())
    return h.hexdigest()[:16]


def load(env=True, stub_readme=True, pkg=None):
    """Returns the package module (attributes: array, raggedarray, datadir, ...)."""
    from .env import symfs, holes
    pkg = pkg or (PKG if env else PKG + '_realenv')
    key = (pkg, env, stub_readme)
    if key in _loaded:
        return _loaded[key]
    for k in [k for k in sys.modules if k == pkg or k.startswith(pkg + '.')]:
        del sys.modules[k]
    package = types.ModuleType(pkg)
    package.__path__ = []
    package.__package__ = pkg
    sys.modules[pkg] = package
    for m in MODULES:
        path = os.path.join(REPO, 'darr', m + '.py')
        with open(path, 'r', encoding='utf-8') as f:
            src = f.read()
        if m == '_version':
            # versioneer: run for real once (no symbolic input), outside any tracing
            mod = types.ModuleType(f'{pkg}._version')
            mod.__file__ = path
            code = compile(src, path, 'exec')
            exec(code, mod.__dict__)
            try:
                v = mod.get_versions()
            except Exception:
                v = {'version': '0+unknown'}
            mod.get_versions = (lambda v=v: dict(v))
            sys.modules[f'{pkg}._version'] = mod
            setattr(package, '_version', mod)
            continue
        tree = ast.parse(src, filename=path)
        tree = _Rewriter(m, env).visit(tree)
        ast.fix_missing_locations(tree)
        code = compile(tree, path, 'exec')
        if m == '__init__':
            mod = package
        else:
            mod = types.ModuleType(f'{pkg}.{m}')
            mod.__package__ = pkg
            sys.modules[f'{pkg}.{m}'] = mod
            setattr(package, m, mod)
        mod.__file__ = path
        mod.__dict__['__cov__'] = __cov__
        if env:
            mod.__dict__['open'] = symfs.open
            mod.__dict__['__symfmt__'] = holes.symfmt
            mod.__dict__['__symstr__'] = holes.symstr
            mod.__dict__['__symformat__'] = holes.symformat
            mod.__dict__['__symdict__'] = _mapping_dict
            mod.__dict__['__symint__'] = _model_int
            mod.__dict__['__symfloat__'] = _model_float
        exec(code, mod.__dict__)
    if env:
        # pure layout: textwrap on text with placeholders is applied identically on both
        # sides of every comparison; keep the real function (concrete strings).
        if stub_readme:
            _install_readme_stubs(package)
        else:
            w = holes.wrap_keep(package.utils.wrap)
            for m in ('utils', 'array', 'raggedarray', 'readcodearray', 'readcoderaggedarray'):
                setattr(getattr(package, m), 'wrap', w)
    _loaded[key] = package
    return package


def _install_readme_stubs(package):
    """README generation replaced by a token that still performs the reads the real
    generator performs (descriptor, metadata presence), for the properties whose subject
    is not the README text.  C06/C07/C08 load with stub_readme=False."""
    from .env.symfs import ReadmeToken
    A = package.array
    R = package.raggedarray

    def readcodetxt_array(da):
        d = da._arrayinfo
        hasmeta = len(da.metadata) > 0
        return ReadmeToken(('array', d['numtype'], d['byteorder'], tuple(d['shape']), hasmeta))

    def readcodetxt_ragged(ra):
        return ReadmeToken(('ragged', len(ra), tuple(ra.atom), ra.dtype.name))

    A.readcodetxt = readcodetxt_array
    R.readcodetxt = readcodetxt_ragged
