"""E2: Python AST -> SMT-LIB2 for loop-free integer kernels, discharged by several solvers.

Supported subset (anything else -> Unsupported, the lemma is inconclusive, never guessed):
  int constants / names / None, + - * // %, unary -, comparisons, and / or / not,
  `x is None`, int(x) (identity: inputs are mathematical integers; "floats equal to
  integers" are covered by restricting reals to integers, exact because the only float
  operations in scope are `% 1` and int()), if / elif / else, assignment to names,
  tuple return, raise <Name>(...), f-strings inside raise arguments (ignored).
Python's floor division / modulo are encoded with their sign case split over SMT's
Euclidean div / mod.

The function is executed symbolically into a list of paths
    (path condition, outcome)      outcome = ('return', [terms]) | ('raise', ExcName)
A lemma = for every path, pc /\\ pre /\\ not spec(outcome) is unsat for ALL solvers.
"""
import ast
import os
import subprocess
import tempfile
import time


class Unsupported(Exception):
    pass


def _floordiv(a, b):
    return f'(ite (> {b} 0) (div {a} {b}) (div (- {a}) (- {b})))'


def _mod(a, b):
    return f'(- {a} (* {b} {_floordiv(a, b)}))'


# True division of ints followed by int(): Python computes the correctly rounded double of the exact quotient and
# truncates it.  For 0 <= a < 2^53 and 1 <= b < 2^53 that equals a // b (the distance of a non-integral a/b from the
# next integer is >= 1/b, more than the rounding error); outside that range the result is left UNCONSTRAINED here - an
# over-approximation: a lemma refuted through it is only a candidate and must be confirmed on the real code.
SIDE = {'decls': [], 'asserts': [], 'quots': []}


def reset_side():
    SIDE['decls'].clear()
    SIDE['asserts'].clear()
    SIDE['quots'].clear()


class Sym:
    """symbolic value: kind in int | bool | none | maybeNone(int with isnone flag) | quot (int / int, a double)"""

    def __init__(self, kind, term, isnone=None):
        self.kind, self.term, self.isnone = kind, term, isnone


def expr(node, env):
    if isinstance(node, ast.Constant):
        if node.value is None:
            return Sym('none', None)
        if isinstance(node.value, bool):
            return Sym('bool', 'true' if node.value else 'false')
        if isinstance(node.value, int):
            return Sym('int', str(node.value) if node.value >= 0 else f'(- {-node.value})')
        raise Unsupported(f'constant {node.value!r}')
    if isinstance(node, ast.Name):
        if node.id not in env:
            raise Unsupported(f'free name {node.id}')
        return env[node.id]
    if isinstance(node, ast.UnaryOp):
        v = expr(node.operand, env)
        if isinstance(node.op, ast.USub) and v.kind == 'int':
            return Sym('int', f'(- {v.term})')
        if isinstance(node.op, ast.Not) and v.kind == 'bool':
            return Sym('bool', f'(not {v.term})')
        raise Unsupported('unary op')
    if isinstance(node, ast.BinOp):
        a, b = expr(node.left, env), expr(node.right, env)
        if a.kind != 'int' or b.kind != 'int':
            raise Unsupported('non-int arithmetic')
        op = node.op
        if isinstance(op, ast.Add):
            return Sym('int', f'(+ {a.term} {b.term})')
        if isinstance(op, ast.Sub):
            return Sym('int', f'(- {a.term} {b.term})')
        if isinstance(op, ast.Mult):
            return Sym('int', f'(* {a.term} {b.term})')
        if isinstance(op, ast.FloorDiv):
            return Sym('int', _floordiv(a.term, b.term))
        if isinstance(op, ast.Div):
            return Sym('quot', (a.term, b.term))
        if isinstance(op, ast.Mod):
            return Sym('int', _mod(a.term, b.term))
        raise Unsupported(f'operator {type(op).__name__}')
    if isinstance(node, ast.Compare):
        if len(node.ops) != 1:
            # chained comparison a < b <= c
            parts = []
            left = node.left
            for op, right in zip(node.ops, node.comparators):
                parts.append(expr(ast.Compare(left, [op], [right]), env).term)
                left = right
            return Sym('bool', '(and ' + ' '.join(parts) + ')')
        op = node.ops[0]
        a, b = expr(node.left, env), expr(node.comparators[0], env)
        if isinstance(op, (ast.Is, ast.IsNot)):
            if b.kind != 'none':
                raise Unsupported('is <non-None>')
            if a.kind == 'none':
                t = 'true'
            elif a.isnone is not None:
                t = a.isnone
            else:
                t = 'false'
            return Sym('bool', t if isinstance(op, ast.Is) else f'(not {t})')
        if a.kind != 'int' or b.kind != 'int':
            raise Unsupported('comparison of non-ints')
        sym = {ast.Lt: '<', ast.LtE: '<=', ast.Gt: '>', ast.GtE: '>=', ast.Eq: '='}.get(type(op))
        if sym:
            return Sym('bool', f'({sym} {a.term} {b.term})')
        if isinstance(op, ast.NotEq):
            return Sym('bool', f'(not (= {a.term} {b.term}))')
        raise Unsupported('comparison op')
    if isinstance(node, ast.BoolOp):
        vs = [expr(v, env) for v in node.values]
        if any(v.kind != 'bool' for v in vs):
            raise Unsupported('boolop on non-bool')
        return Sym('bool', '(' + ('and' if isinstance(node.op, ast.And) else 'or') + ' '
                   + ' '.join(v.term for v in vs) + ')')
    if isinstance(node, ast.Call) and isinstance(node.func, ast.Name) and node.func.id == 'int' \
            and len(node.args) == 1:
        v = expr(node.args[0], env)
        if v.kind == 'quot':
            a, b = v.term
            name = f'fq{len(SIDE["decls"])}'
            SIDE['decls'].append(name)
            SIDE['quots'].append((name, a, b))
            SIDE['asserts'].append(f'(=> (and (<= 0 {a}) (< {a} 9007199254740992) (<= 1 {b}) (< {b} 9007199254740992)) '
                                   f'(= {name} (div {a} {b})))')
            return Sym('int', name)
        if v.kind != 'int':
            raise Unsupported('int() of non-int')
        return v
    raise Unsupported(f'expression {type(node).__name__}')


def paths(stmts, env, pc):
    """yield (pc list, outcome, env) for every path through stmts; outcome None = fell through"""
    if not stmts:
        yield pc, None, env
        return
    s, rest = stmts[0], stmts[1:]
    if isinstance(s, ast.Expr) and isinstance(s.value, ast.Constant):
        yield from paths(rest, env, pc)          # docstring
    elif isinstance(s, ast.Assign):
        if len(s.targets) != 1 or not isinstance(s.targets[0], ast.Name):
            raise Unsupported('assignment target')
        e2 = dict(env)
        e2[s.targets[0].id] = expr(s.value, env)
        yield from paths(rest, e2, pc)
    elif isinstance(s, ast.AugAssign):
        if not isinstance(s.target, ast.Name):
            raise Unsupported('augassign target')
        e2 = dict(env)
        e2[s.target.id] = expr(ast.BinOp(ast.Name(s.target.id, ast.Load()), s.op, s.value), env)
        yield from paths(rest, e2, pc)
    elif isinstance(s, ast.If):
        c = expr(s.test, env)
        if c.kind != 'bool':
            raise Unsupported('if on non-bool')
        if c.term != 'false':          # statically dead branches (x is None on a known value) are skipped
            for pc2, out, e2 in paths(s.body, env, pc + [c.term]):
                if out is not None:
                    yield pc2, out, e2
                else:
                    yield from paths(rest, e2, pc2)
        if c.term != 'true':
            for pc2, out, e2 in paths(s.orelse, env, pc + [f'(not {c.term})']):
                if out is not None:
                    yield pc2, out, e2
                else:
                    yield from paths(rest, e2, pc2)
    elif isinstance(s, ast.Return):
        v = s.value
        elts = v.elts if isinstance(v, ast.Tuple) else [v]
        yield pc, ('return', [expr(e, env).term for e in elts]), env
    elif isinstance(s, ast.Raise):
        exc = s.exc
        name = exc.func.id if isinstance(exc, ast.Call) and isinstance(exc.func, ast.Name) else \
            (exc.id if isinstance(exc, ast.Name) else None)
        if name is None:
            raise Unsupported('raise expression')
        yield pc, ('raise', name), env
    elif isinstance(s, ast.Pass):
        yield from paths(rest, env, pc)
    else:
        raise Unsupported(f'statement {type(s).__name__}')


def find_function(path, name, cls=None):
    with open(path, encoding='utf-8') as f:
        tree = ast.parse(f.read(), filename=path)
    for node in ast.walk(tree):
        if cls and isinstance(node, ast.ClassDef) and node.name == cls:
            for n in node.body:
                if isinstance(n, ast.FunctionDef) and n.name == name:
                    return n
        if not cls and isinstance(node, ast.FunctionDef) and node.name == name:
            return node
    raise Unsupported(f'function {name} not found in {path}')


SOLVERS = [('z3-4.8.12', ['/usr/bin/z3', '-T:60']), ('z3-5.1', ['z3-new', '-T:60']),
           ('cvc5-1.0.3', ['cvc5', '--incremental', '--tlimit-per=60000'])]


def run_solvers(smt, expect='unsat'):
    """returns list of dicts per solver; verdict 'unsat'/'sat'/'unknown'/'error'"""
    out = []
    with tempfile.NamedTemporaryFile('w', suffix='.smt2', delete=False) as f:
        f.write(smt)
        fn = f.name
    try:
        for name, cmd in SOLVERS:
            t0 = time.time()
            try:
                p = subprocess.run(cmd + [fn], capture_output=True, text=True, timeout=90)
                txt = (p.stdout + p.stderr).strip()
            except Exception as e:
                txt = f'(error "{e}")'
            lines = [l.strip() for l in txt.splitlines() if l.strip()]
            if any('error' in l.lower() for l in lines):
                v = 'error'
            else:
                answers = [l for l in lines if l in ('sat', 'unsat', 'unknown', 'timeout')]
                if not answers:
                    v = 'error'
                elif all(a == 'unsat' for a in answers):
                    v = 'unsat'
                elif any(a == 'sat' for a in answers):
                    v = 'sat'
                else:
                    v = 'unknown'
            out.append({'solver': name, 'verdict': v, 'seconds': round(time.time() - t0, 3),
                        'raw': txt[:200]})
    finally:
        os.unlink(fn)
    return out
