"""`tarfile` as seen by the loaded Darr source."""
from .symfs import taropen as open, TarError, CompressionError
