"""`shutil` as seen by the loaded Darr source."""
from .symfs import rmtree, copytree
