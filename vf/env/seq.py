"""Provenance intervals: array / file content as a concatenation of row ranges of named
immutable sources.  Darr only ever moves contiguous first-axis ranges, so this is exact
for everything it does, and everything the solver sees is linear integer arithmetic.

    Seq = (Seg(src, lo, hi), ...)     rows lo..hi-1 of source `src`

`src` is any hashable concrete token (tuple / str).  lo / hi may be symbolic ints.
Empty segments are allowed and skipped; nothing here needs to decide emptiness unless a
caller asks for an element (`at`).
"""


from .symint import ite, smin, smax, clamp
from ..engine import is_symbolic as is_sym


class Seg:
    __slots__ = ('src', 'lo', 'hi')

    def __init__(self, src, lo, hi):
        self.src = src
        self.lo = lo
        self.hi = hi

    def __repr__(self):
        return f'Seg({self.src!r},{self.lo!r},{self.hi!r})'


class Seq:
    __slots__ = ('segs',)

    def __init__(self, segs=()):
        self.segs = tuple(segs)

    @staticmethod
    def of(src, n):
        return Seq((Seg(src, 0, n),))

    def length(self):
        t = 0
        for s in self.segs:
            t = t + (s.hi - s.lo)
        return t

    def concat(self, other):
        return Seq(self.segs + other.segs)

    def cut(self, a, b):
        """rows a..b-1 (fork-free: segments outside the range become empty segments)."""
        out = []
        pos = 0
        for s in self.segs:
            n = s.hi - s.lo
            # overlap of [pos, pos+n) with [a, b), clamped into [0, n]
            lo = clamp(a - pos, 0, n)
            hi = clamp(b - pos, lo, n)
            if isinstance(lo, int) and isinstance(hi, int) and not is_sym(lo) and not is_sym(hi):
                if hi > lo:
                    out.append(Seg(s.src, s.lo + lo, s.lo + hi))
            else:
                out.append(Seg(s.src, s.lo + lo, s.lo + hi))
            pos = pos + n
        return Seq(out)

    def at(self, i):
        """(src, offset) of row i; requires 0 <= i < length."""
        pos = 0
        for s in self.segs:
            n = s.hi - s.lo
            if i < pos + n:
                if i >= pos:
                    return (s.src, s.lo + (i - pos))
            pos = pos + n
        raise IndexError('Seq.at out of range')

    def canon(self):
        """canonical tuple of (src, lo, hi): empty segments dropped, adjacent ranges of one
        source merged (forks on undecided emptiness / adjacency); value-independent sources
        (fill / zero / bcast) are normalised to offset 0."""
        out = []
        for s in self.segs:
            n = s.hi - s.lo
            if n <= 0:
                continue
            flat = s.src[0] in ('fill', 'zero', 'bcast', 'uninit')
            lo, hi = (0, n) if flat else (s.lo, s.hi)
            if out and out[-1][0] == s.src:
                p = out[-1]
                if flat:
                    out[-1] = (s.src, 0, p[2] + n)
                    continue
                if p[2] == lo:
                    out[-1] = (s.src, p[1], hi)
                    continue
            out.append((s.src, lo, hi))
        return tuple(out)

    def map_src(self, f):
        return Seq(Seg(f(s.src), s.lo, s.hi) for s in self.segs)

    def __repr__(self):
        return 'Seq' + repr(self.segs)


def clamp_slice(start, stop, n):
    """CPython slice.indices(n) for step None/1 -> (a, b) with 0 <= a <= b <= n (fork-free)."""
    if start is None:
        a = 0
    else:
        a = clamp(ite(start < 0, start + n, start), 0, n)
    if stop is None:
        b = n
    else:
        b = clamp(ite(stop < 0, stop + n, stop), 0, n)
    b = smax(a, b)
    return a, b


def _clamp_slice_forking(start, stop, n):
    """CPython slice.indices(n) for step None/1: returns (a, b) with 0<=a<=b'<=n where
    the slice denotes rows a..max(a,b)-1."""
    if start is None:
        a = 0
    else:
        a = start
        if a < 0:
            a = a + n
            if a < 0:
                a = 0
        elif a > n:
            a = n
    if stop is None:
        b = n
    else:
        b = stop
        if b < 0:
            b = b + n
            if b < 0:
                b = 0
        elif b > n:
            b = n
    if b < a:
        b = a
    return a, b


def same_at(sa, sb, probe):
    """Element `probe` of both sequences denotes the same source row (0<=probe<len)."""
    xa = sa.at(probe)
    xb = sb.at(probe)
    if xa[0] != xb[0]:
        return False
    if xa[0][0] in ('fill', 'zero', 'bcast', 'uninit'):
        return True          # every row of such a source is the same value
    return xa[1] == xb[1]


def seq_equal(sa, sb, probe):
    """Extensional equality, decided with one arbitrary (symbolic) probe index:
    equal lengths and, if 0 <= probe < length, equal element provenance at probe."""
    n = sa.length()
    if n != sb.length():
        return False
    if 0 <= probe < n:
        return same_at(sa, sb, probe)
    return True
