"""Pure-Python model of the NumPy subset Darr uses (see DESIGN.md 2.3).

Arrays carry (dtype, shape, content) where content is a Seq of first-axis rows with
provenance (vf.env.seq).  Element values are never inspected by Darr, only moved, so
values are opaque sources; rows whose values matter (ragged index rows) are literal.
Anything outside the modelled subset raises ModelGap -> obligation inconclusive.
"""
import sys

from ..engine import ModelGap
from .seq import Seq, Seg, clamp_slice

NATIVE = '<' if sys.byteorder == 'little' else '>'
newaxis = None


def __getattr__(name):
    # a changed /repo reaching for a NumPy feature outside the modelled subset: inconclusive, never green
    if name.startswith('__'):
        raise AttributeError(name)
    raise ModelGap(f'numpy.{name} is not modelled')

_TYPES = {
    # name: (kind, itemsize, code)
    'int8': ('i', 1, 'i1'), 'int16': ('i', 2, 'i2'), 'int32': ('i', 4, 'i4'),
    'int64': ('i', 8, 'i8'), 'uint8': ('u', 1, 'u1'), 'uint16': ('u', 2, 'u2'),
    'uint32': ('u', 4, 'u4'), 'uint64': ('u', 8, 'u8'), 'float16': ('f', 2, 'f2'),
    'float32': ('f', 4, 'f4'), 'float64': ('f', 8, 'f8'), 'complex64': ('c', 8, 'c8'),
    'complex128': ('c', 16, 'c16'),
    # unsupported element types (for the type gate)
    'bool': ('b', 1, 'b1'), 'str96': ('U', 12, 'U3'), 'object': ('O', 8, 'O'),
    'datetime64[s]': ('M', 8, 'M8[s]'), 'void64': ('V', 8, 'V8'),
}
_CODE2NAME = {v[2]: k for k, v in _TYPES.items()}
INT_RANGE = {
    'int8': (-128, 127), 'int16': (-32768, 32767), 'int32': (-2 ** 31, 2 ** 31 - 1),
    'int64': (-2 ** 63, 2 ** 63 - 1), 'uint8': (0, 255), 'uint16': (0, 65535),
    'uint32': (0, 2 ** 32 - 1), 'uint64': (0, 2 ** 64 - 1),
}


class generic:
    pass


class number(generic):
    pass


class integer(number):
    pass


class signedinteger(integer):
    pass


class floating(number):
    pass


class complexfloating(number):
    pass


class datetime64(generic):
    pass


class int64(signedinteger):
    """np.int64 used as a dtype specifier and as a scalar type."""
    _name = 'int64'

    def __init__(self, v=0):
        self.v = v

    def __int__(self):
        return self.v

    __index__ = __int__


_NARROW = ('int8', 'int16', 'int32', 'uint8', 'uint16', 'uint32')


class NarrowInt(integer):
    """An element read from an integer array narrower than 64 bits: a NumPy scalar, not a Python int.  Its
    arithmetic stays in its own type (NEP 50: a Python int operand is weak) and WRAPS on overflow (NumPy
    warns and carries on); a Python int operand outside the type's range raises OverflowError."""

    def __init__(self, v, name):
        self.v = v
        self._name = name

    def __int__(self):
        return self.v

    __index__ = __int__

    def _wrap(self, r):
        lo, hi = INT_RANGE[self._name]
        if r < lo or r > hi:
            span = hi - lo + 1
            r = ((r - lo) % span) + lo
        return NarrowInt(r, self._name)

    def _operand(self, o):
        if isinstance(o, NarrowInt):
            if o._name != self._name:
                raise ModelGap('mixed narrow integer arithmetic')
            return o.v
        if isinstance(o, int64):
            raise ModelGap('mixed narrow integer arithmetic')
        if isinstance(o, bool):
            return int(o)
        if isinstance(o, int):
            lo, hi = INT_RANGE[self._name]
            if o < lo or o > hi:
                raise OverflowError(f'Python integer out of bounds for {self._name}')
            return o
        raise ModelGap(f'narrow integer arithmetic with {type(o).__name__}')

    def __add__(self, o):
        return self._wrap(self.v + self._operand(o))

    __radd__ = __add__

    def __sub__(self, o):
        return self._wrap(self.v - self._operand(o))

    def __rsub__(self, o):
        return self._wrap(self._operand(o) - self.v)

    def __mul__(self, o):
        return self._wrap(self.v * self._operand(o))

    __rmul__ = __mul__

    def __neg__(self):
        return self._wrap(-self.v)

    def _cmpval(self, o):
        if isinstance(o, (NarrowInt, int64)):
            return o.v
        if isinstance(o, (int, float)):
            return o
        raise ModelGap(f'narrow integer comparison with {type(o).__name__}')

    def __eq__(self, o):
        return self.v == self._cmpval(o)

    def __ne__(self, o):
        return self.v != self._cmpval(o)

    def __lt__(self, o):
        return self.v < self._cmpval(o)

    def __le__(self, o):
        return self.v <= self._cmpval(o)

    def __gt__(self, o):
        return self.v > self._cmpval(o)

    def __ge__(self, o):
        return self.v >= self._cmpval(o)

    def __hash__(self):
        return hash(self.v)

    def __bool__(self):
        return self.v != 0

    @property
    def dtype(self):
        return SymDType(self._name)

    def item(self):
        return self.v

    def __str__(self):
        from . import holes
        return holes.symstr(self.v)

    __repr__ = __str__

    def __format__(self, spec):
        return self.__str__()


def _element(name, v):
    return NarrowInt(v, name) if name in _NARROW else v


class float64(floating):
    _name = 'float64'

    def __init__(self, v=0.0):
        self.v = v

    def __float__(self):
        return self.v


class SymDType:
    """name + ground-truth byte order of the bytes ('<', '>' or '|' for 1-byte items)."""
    __slots__ = ('name', 'gt')

    def __init__(self, name, gt=None):
        if name not in _TYPES:
            raise TypeError(f"data type '{name}' not understood")
        self.name = name
        if _TYPES[name][1] == 1 or _TYPES[name][0] in 'OUV' and False:
            gt = '|'
        elif gt is None or gt == '=':
            gt = NATIVE
        self.gt = gt

    @property
    def itemsize(self):
        return _TYPES[self.name][1]

    @property
    def kind(self):
        return _TYPES[self.name][0]

    @property
    def byteorder(self):
        if self.gt == '|':
            return '|'
        return '=' if self.gt == NATIVE else self.gt

    @property
    def str(self):
        return self.gt + _TYPES[self.name][2]

    @property
    def descr(self):
        return [('', self.str)]

    def newbyteorder(self, new='S'):
        if self.gt == '|':
            return self
        if new in ('<', '>'):
            return SymDType(self.name, new)
        if new in ('=', 'N', 'native'):
            return SymDType(self.name, NATIVE)
        if new in ('S', 's', 'swap'):
            return SymDType(self.name, '>' if self.gt == '<' else '<')
        if new in ('little', 'L'):
            return SymDType(self.name, '<')
        if new in ('big', 'B'):
            return SymDType(self.name, '>')
        if new in ('|', 'I'):
            return self
        raise ValueError(f'{new} is an unrecognized byteorder')

    def __eq__(self, other):
        try:
            o = dtype(other)
        except Exception:
            return False
        return self.name == o.name and self.gt == o.gt

    def __ne__(self, other):
        return not self.__eq__(other)

    def __hash__(self):
        return hash((self.name, self.gt))

    def __repr__(self):
        return f"dtype('{self.str}')"

    def __str__(self):
        if self.gt in ('|', NATIVE):
            return self.name
        return self.str


def dtype(spec=None):
    if isinstance(spec, SymDType):
        return spec
    if spec is None or spec is float:
        return SymDType('float64')
    if spec is int:
        return SymDType('int64')
    if spec is complex:
        return SymDType('complex128')
    if spec is bool:
        return SymDType('bool')
    if isinstance(spec, type) and hasattr(spec, '_name'):
        return SymDType(spec._name)
    if isinstance(spec, str):
        s = spec
        if s in _TYPES:
            return SymDType(s)
        gt = None
        if s[:1] in '<>=|':
            gt = s[0]
            s = s[1:]
        if s in _CODE2NAME:
            return SymDType(_CODE2NAME[s], gt)
        if s in _TYPES:
            return SymDType(s, gt)
        raise TypeError(f"data type '{spec}' not understood")
    raise TypeError(f"Cannot interpret '{spec!r}' as a data type")


def fill_src(value, name):
    """source of rows all holding `value` cast to dtype `name`.  Concrete values are keyed by the BYTES they
    cast to (0 and 0.0 alike; -0.0 differs from 0.0 in a floating type; True is 1)."""
    v = value
    try:
        from .holes import _is_sym
        sym = _is_sym(v)
    except Exception:
        sym = False
    if not sym and isinstance(v, (bool, int, float)) and name in _TYPES:
        kind = _TYPES[name][0]
        if kind in 'fc':
            v = ('f', repr(float(v)))
        elif kind in 'iu' and isinstance(v, (bool, int)):
            v = int(v)
    elif not sym and isinstance(v, complex) and name in _TYPES and _TYPES[name][0] == 'c':
        v = ('c', repr(v.real), repr(v.imag)) if v.imag != 0 or repr(v.imag) == '-0.0' else ('f', repr(v.real))
    return ('fill', v, name)


def _prod(t):
    p = 1
    for x in t:
        p = p * x
    return p


# ---- sources -----------------------------------------------------------------------------
def cast_src(src, name):
    """Source after value-casting to dtype `name`. Casting to the source's own type is
    the identity; sources remember their element type in src[-1] when they have one."""
    if src[0] == 'cast':
        if src[1] == name:
            return src
    if src[0] == 'typed' and src[1] == name:
        return src
    if src[0] == 'lit':
        return src          # literal ints; range checked by the caller
    if src[0] == 'zero':
        return src
    return ('cast', name, src)


class Flags:
    def __init__(self, writeable=True, c=True, f=False):
        self.writeable = writeable
        self.c_contiguous = c
        self.f_contiguous = f

    def __getitem__(self, k):
        return {'C_CONTIGUOUS': self.c_contiguous, 'F_CONTIGUOUS': self.f_contiguous,
                'WRITEABLE': self.writeable}[k]


class UseAfterUnmap(BaseException):
    """The model's rendering of 'the interpreter would read unmapped memory'."""


class ndarray:
    """Model array.  shape[0] and content lengths may be symbolic; ndim is concrete."""

    def __init__(self, dt, shape, content, writeable=True, order='C'):
        self.dtype = dt
        self._shape = tuple(shape)
        self._content = content       # Seq over axis 0 (for ndim 0: one row)
        self.flags = Flags(writeable, c=(order == 'C' or len(shape) < 2),
                           f=(order == 'F' or len(shape) < 2))

    # -- data access hook (memmaps / views override) --
    def _rows(self):
        return self._content

    def _check_alive(self):
        pass

    @property
    def shape(self):
        return self._shape

    @property
    def ndim(self):
        return len(self._shape)

    @property
    def size(self):
        return _prod(self._shape)

    @property
    def itemsize(self):
        return self.dtype.itemsize

    @property
    def nbytes(self):
        return self.size * self.dtype.itemsize

    def __len__(self):
        if not self._shape:
            raise TypeError('len() of unsized object')
        return self._shape[0]

    def item(self):
        self._check_alive()
        if self.size != 1:
            raise ValueError('can only convert an array of size 1 to a Python scalar')
        src, off = self._rows().at(0)
        if src[0] == 'lit' and not isinstance(src[1], tuple):
            return src[1]
        return _ItemToken(('item', self.dtype.name, src, off))

    @property
    def T(self):
        return _TView(self)

    def astype(self, dt, copy=True):
        d = dtype(dt)
        self._check_alive()
        rows = self._rows()
        if d.name != self.dtype.name:
            rows = rows.map_src(lambda s: cast_src(s, d.name))
        res = ndarray(d, self._shape, rows)
        if self.ndim >= 2 and self.flags.f_contiguous and not self.flags.c_contiguous:
            res.flags.c_contiguous, res.flags.f_contiguous = False, True      # order='K' keeps F layout
        return res

    def copy(self, order='C'):
        self._check_alive()
        return ndarray(self.dtype, self._shape, self._rows())

    def flatten(self):
        self._check_alive()
        if self.ndim == 1:
            return self.copy()
        if self.ndim == 2:
            out = []
            for s in self._rows().segs:
                if s.src[0] != 'lit' or not isinstance(s.lo, int):
                    raise ModelGap('flatten of non-literal rows')
                for v in s.src[1]:
                    out.append(Seg(('lit', v), 0, 1))
            return ndarray(self.dtype, (len(out),), Seq(out))
        raise ModelGap('flatten ndim>2')

    def tolist(self):
        self._check_alive()
        return _ListToken(self)

    def tofile(self, fd):
        from . import symfs
        self._check_alive()
        symfs.array_tofile(self, fd)

    def tobytes(self, order='C'):
        """bytes of the array; order 'C' = row-major whatever the memory layout; 'A'/'F'/'K' follow a
        column-major layout when the array has one (and no row-major one) - such bytes are NOT the row-major
        bytes unless the array has at most one row or one element per row."""
        self._check_alive()
        rows = self._rows()
        if order not in ('C', 'A', 'F', 'K', None):
            raise ValueError('order not understood')
        colmajor = False
        if self.ndim >= 2:
            if order == 'F':
                colmajor = True
            elif order in ('A', 'K') and self.flags.f_contiguous and not self.flags.c_contiguous:
                colmajor = True
        if colmajor:
            n = self._shape[0]
            if not (n <= 1 or _prod(self._shape[1:]) <= 1):
                rows = rows.map_src(lambda sr: ('colmajor-bytes', sr))
        return ModelBytes(ndarray(self.dtype, self._shape, rows))

    def __iter__(self):
        n = len(self)
        if not isinstance(n, int):
            n = int(n)
        for i in range(n):
            yield self[i]

    def __int__(self):
        if self.ndim == 0 or self.size == 1:
            src, off = self._rows().at(0)
            if src[0] == 'lit':
                return src[1]
        raise ModelGap('int() of opaque element')

    __index__ = __int__

    # -- indexing --
    def __getitem__(self, index):
        self._check_alive()
        return _getitem(self, index)

    def __setitem__(self, index, value):
        self._check_alive()
        if not self.flags.writeable:
            raise ValueError('assignment destination is read-only')
        _setitem(self, index, value)

    def _store(self, rows):
        self._content = rows

    def __iadd__(self, k):
        self._check_alive()
        rows = self._rows()
        out = []
        for s in rows.segs:
            if s.src[0] != 'arange':
                raise ModelGap('+= on non-index array')
            out.append(Seg(s.src, s.lo + k, s.hi + k))
        self._store(Seq(out))
        return self

    def __repr__(self):
        return f'symarray(shape={self._shape}, dtype={self.dtype})'

    def __str__(self):
        return self.__repr__()


class ModelBytes:
    """result of ndarray.tobytes(): the bytes of `arr` in row order"""

    def __init__(self, arr):
        self.arr = arr

    def __len__(self):
        return self.arr.nbytes


class _SliceView(ndarray):
    """a[s:e] of an in-memory array: aliases rows s..e of its base."""

    def __init__(self, base, s, e):
        ndarray.__init__(self, base.dtype, (e - s,) + base._shape[1:], None,
                         writeable=base.flags.writeable)
        self._base, self._s, self._e = base, s, e

    def _rows(self):
        return self._base._rows().cut(self._s, self._e)

    def _store(self, rows):
        b = self._base._rows()
        n = self._base._shape[0]
        self._base._store(b.cut(0, self._s).concat(rows).concat(b.cut(self._e, n)))


class _ListToken:
    """result of ndarray.tolist(): JSON-wise a list; compared structurally."""

    def __init__(self, a):
        self.key = ('tolist', a.dtype.name, tuple(a.shape),
                    tuple((s.src, s.lo, s.hi) for s in a._rows().segs))

    def __eq__(self, o):
        return isinstance(o, _ListToken) and self.key == o.key

    def __hash__(self):
        return 0


class _ItemToken:
    """ndarray.item() of an opaque element: JSON-wise a bare number"""

    def __init__(self, key):
        self.key = key

    def __eq__(self, o):
        return isinstance(o, _ItemToken) and self.key == o.key

    def __hash__(self):
        return 0


class _TView:
    def __init__(self, base):
        self.base = base

    def __setitem__(self, index, value):
        b = self.base
        if not (isinstance(index, slice) and index.start is None and index.stop is None
                and index.step is None):
            raise ModelGap('T-view index')
        # value broadcasts along the last axis of T == first axis of base
        if not isinstance(value, ndarray) or value.ndim != 1:
            raise ModelGap('T-view value')
        if len(value) != len(b):
            raise ValueError('could not broadcast input array')
        rows = value._rows()
        if value.dtype.name != b.dtype.name:
            rows = rows.map_src(lambda s: cast_src(s, b.dtype.name))
        b._store(rows)


class OpaqueIndex:
    """Stands for an arbitrary NumPy index expression; `valid` says whether NumPy accepts
    it for the array at hand, `errclass` what it raises otherwise."""

    def __init__(self, token, valid, errclass=IndexError):
        self.token = token
        self.valid = valid
        self.errclass = errclass


class OpaqueValue:
    def __init__(self, token, ok=True, errclass=ValueError):
        self.token = token
        self.ok = ok
        self.errclass = errclass


def _as_int(x):
    if isinstance(x, ndarray):
        return x.__int__()
    if isinstance(x, (int64, NarrowInt)):
        return x.v
    return x


def _segs_key(rows):
    return rows.canon()


def _getitem(a, index):
    rows = a._rows()
    if isinstance(index, OpaqueIndex):
        if not index.valid:
            raise index.errclass('invalid index (opaque)')
        return _make_view(a, ndarray(a.dtype, ('?',), Seq.of(('indexed', index.token,
                                                              _segs_key(rows)), 1)))
    if isinstance(index, tuple):
        if len(index) == 1:
            return _getitem(a, index[0])
        index = _drop_ellipsis(a, index)
        if not isinstance(index, tuple):
            return _getitem(a, index)
        if isinstance(index[0], (int, int64, NarrowInt)) and not isinstance(index[0], bool):
            # a[i, j, ..] == a[i][j, ..] when the leading index is an integer
            return _getitem(_getitem(a, index[0]), tuple(index[1:]))
        raise ModelGap('tuple index')
    if index is Ellipsis:
        return _make_view(a, ndarray(a.dtype, a._shape, rows))
    if isinstance(index, slice):
        if a.ndim == 0:
            raise IndexError('too many indices for array')
        if index.step is not None and index.step != 1:
            raise ModelGap('slice step')
        n = a._shape[0]
        s, e = clamp_slice(_as_int(index.start), _as_int(index.stop), n)
        if getattr(a, '_mapowner', None) is None:
            # a basic slice of an in-memory array is a VIEW: it sees later writes to its base and
            # writes through to it (slices of memory maps stay value snapshots guarded by liveness)
            res = _SliceView(a, s, e)
        else:
            res = ndarray(a.dtype, (e - s,) + a._shape[1:], rows.cut(s, e))
        if a.ndim >= 2 and _prod(a._shape[1:]) == 1:
            res.flags.c_contiguous = res.flags.f_contiguous = True     # (n, 1, ..) is both (relaxed strides)
        elif a.ndim >= 2:
            # a block of rows of a C-contiguous array is C-contiguous; of an F-contiguous array it is
            # F-contiguous only if it holds ALL rows; of a strided array it is neither
            res.flags.c_contiguous = a.flags.c_contiguous or (e - s <= 1)     # a single row is C-contiguous
            res.flags.f_contiguous = a.flags.f_contiguous and not a.flags.c_contiguous and (e - s == n)
        else:
            res.flags.c_contiguous = a.flags.c_contiguous
            res.flags.f_contiguous = a.flags.f_contiguous
        return _make_view(a, res)
    if isinstance(index, bool):
        raise ModelGap('bool index')
    if isinstance(index, (int, int64, NarrowInt)) or (isinstance(index, ndarray) and index.ndim == 0):
        if a.ndim == 0:
            raise IndexError('too many indices for array')
        i = _as_int(index)
        n = a._shape[0]
        if i < 0:
            i = i + n
        if i < 0 or i >= n:
            raise IndexError(f'index out of bounds for axis 0')
        src, off = rows.at(i)
        sub = a._shape[1:]
        if len(sub) == 0:
            if src[0] == 'lit':
                return _element(a.dtype.name, src[1])   # literal element: (symbolic) int, typed when narrow
            return ndarray(a.dtype, (), Seq((Seg(src, off, off + 1),)))   # scalar copy
        if src[0] == 'lit':
            if len(sub) != 1:
                raise ModelGap('literal rows of rank>1')
            vals = src[1]
            return _make_view(a, ndarray(a.dtype, sub,
                                         Seq(Seg(('lit', v), 0, 1) for v in vals)))
        return _make_view(a, ndarray(a.dtype, sub, Seq.of(('sub', src, off), sub[0])))
    if index is None:
        # a[np.newaxis]: one more leading axis of length 1 whose single row is the whole array
        if a.ndim == 0:
            return ndarray(a.dtype, (1,), rows)
        return ndarray(a.dtype, (1,) + a._shape, Seq.of(('whole', a.dtype.name, _segs_key(rows)), 1))
    if isinstance(index, (float, str)):
        if False:
            pass
        raise IndexError('only integers, slices (`:`), ellipsis (`...`), numpy.newaxis '
                         '(`None`) and integer or boolean arrays are valid indices')
    raise ModelGap(f'index of type {type(index).__name__}')


def _drop_ellipsis(a, index):
    """an Ellipsis inside a tuple index stands for the axes the other entries do not name - possibly none"""
    ells = [i for i, x in enumerate(index) if x is Ellipsis]
    if not ells:
        return index
    if len(ells) > 1:
        raise IndexError("an index can only have a single ellipsis ('...')")
    rest = tuple(x for x in index if x is not Ellipsis)
    named = [x for x in rest if x is not None]
    if len(named) > a.ndim:
        raise IndexError('too many indices for array')
    if not rest:
        return Ellipsis
    if ells[0] == len(index) - 1 or len(named) == a.ndim:
        # trailing Ellipsis, or one that stands for zero axes: the remaining entries index the leading axes
        return rest if len(rest) > 1 else rest[0]
    raise ModelGap('leading ellipsis standing for one or more axes')


def _make_view(base, result):
    """Indexing a memmap (or a view of one) gives a view that dangles after unmap."""
    owner = getattr(base, '_mapowner', None)
    if owner is not None:
        result._mapowner = owner
        result._check_alive = lambda: owner._check_alive()
    return result


def _value_rows(value, dt, nrows, subshape):
    """rows produced by broadcasting/casting `value` into nrows rows of dtype dt."""
    if isinstance(value, OpaqueValue):
        if not value.ok:
            raise value.errclass('could not assign (opaque value)')
        return Seq.of(('bcast', value.token, dt.name), nrows)
    if isinstance(value, ndarray):
        value._check_alive()
        if value.ndim == len(subshape) + 1:
            if tuple(value.shape[1:]) != tuple(subshape):
                raise ValueError('could not broadcast input array')
            if value.shape[0] != nrows:
                if value.shape[0] == 1:
                    raise ModelGap('row broadcast')
                raise ValueError('could not broadcast input array')
            rows = value._rows()
            if value.dtype.name != dt.name:
                rows = rows.map_src(lambda s: cast_src(s, dt.name))
            return rows
        raise ModelGap('assignment broadcast rank')
    if isinstance(value, (int, float, complex)):
        return Seq.of(fill_src(value, dt.name), nrows)
    raise ModelGap(f'assignment value {type(value).__name__}')


def _setitem(a, index, value):
    if isinstance(index, tuple):
        index = _drop_ellipsis(a, index)
        if isinstance(index, tuple) and len(index) == 1:
            index = index[0]
    if index is Ellipsis and a.ndim >= 1:
        index = slice(None)
    rows = a._rows()
    if isinstance(index, OpaqueIndex):
        if not index.valid:
            raise index.errclass('invalid index (opaque)')
        if isinstance(value, OpaqueValue) and not value.ok:
            raise value.errclass('could not assign (opaque value)')
        vt = value.token if isinstance(value, OpaqueValue) else ('val', repr(type(value)))
        n = a._shape[0]
        a._store(Seq.of(('assigned', index.token, vt, _segs_key(rows)), n))
        return
    if isinstance(index, slice):
        if index.step is not None and index.step != 1:
            raise ModelGap('slice step')
        n = a._shape[0]
        s, e = clamp_slice(_as_int(index.start), _as_int(index.stop), n)
        new = _value_rows(value, a.dtype, e - s, a._shape[1:])
        a._store(rows.cut(0, s).concat(new).concat(rows.cut(e, n)))
        return
    if isinstance(index, int) and not isinstance(index, bool):
        n = a._shape[0]
        i = index
        if i < 0:
            i = i + n
        if i < 0 or i >= n:
            raise IndexError('index out of bounds')
        if isinstance(value, OpaqueValue):
            new = _value_rows(value, a.dtype, 1, a._shape[1:])
        elif isinstance(value, (int, float, complex)):
            new = Seq.of(fill_src(value, a.dtype.name), 1)
        else:
            raise ModelGap('setitem value')
        a._store(rows.cut(0, i).concat(new).concat(rows.cut(i + 1, n)))
        return
    raise ModelGap(f'setitem index {type(index).__name__}')


# ---- inputs that are not arrays -------------------------------------------------------------
class SeqInput:
    """A (nested) Python sequence of `n` items of one numeric kind with trailing shape
    `atom`; stands in for a list/tuple whose length is symbolic. Supports exactly what a
    list supports of what Darr uses: len() and slicing."""

    def __init__(self, kind, n, atom=(), src=('in', 0), lo=0):
        self.kind = kind          # 'int' | 'float' | 'complex' | 'bool' | 'str'
        self.n = n
        self.atom = tuple(atom)
        self.src = src
        self.lo = lo

    def __len__(self):
        return self.n

    def __getitem__(self, index):
        if isinstance(index, slice):
            if index.step is not None and index.step != 1:
                raise ModelGap('list slice step')
            s, e = clamp_slice(index.start, index.stop, self.n)
            return SeqInput(self.kind, e - s, self.atom, self.src, self.lo + s)
        raise ModelGap('list element access')

    def __iter__(self):
        raise ModelGap('iteration over symbolic list')


_KIND_DEFAULT = {'int': 'int64', 'float': 'float64', 'complex': 'complex128',
                 'bool': 'bool', 'str': 'str96', 'object': 'object'}


def _from_pyseq(obj, dt):
    """np.asarray of a real (nested) Python list/tuple of numbers -> literal rows."""
    def kind_of(x):
        if isinstance(x, bool):
            return 'bool'
        if isinstance(x, int):
            return 'int'
        if isinstance(x, float):
            return 'float'
        if isinstance(x, complex):
            return 'complex'
        if isinstance(x, str):
            return 'str'
        return 'object'
    if len(obj) == 0:
        d = dt if dt is not None else SymDType('float64')
        return ndarray(d, (0,), Seq())

    def unscalar(x):
        # NumPy integer scalars among the items are CAST to the target type (wrapping, no range check)
        if isinstance(x, (NarrowInt, int64)):
            v = x.v
            if dt is not None and dt.name in INT_RANGE:
                lo, hi = INT_RANGE[dt.name]
                if v < lo or v > hi:
                    v = ((v - lo) % (hi - lo + 1)) + lo
            return v
        if isinstance(x, (list, tuple)):
            return type(x)(unscalar(y) for y in x)
        return x
    obj = [unscalar(x) for x in obj]
    first = obj[0]
    if isinstance(first, (list, tuple)):
        width = len(first)
        rows = []
        kinds = set()
        for r in obj:
            if not isinstance(r, (list, tuple)) or len(r) != width:
                raise ValueError('setting an array element with a sequence. The requested '
                                 'array has an inhomogeneous shape')
            for v in r:
                if isinstance(v, (list, tuple)):
                    raise ModelGap('literal nesting depth > 2')
                kinds.add(kind_of(v))
            rows.append(tuple(r))
        shape = (len(obj), width)
        segs = [Seg(('lit', r), 0, 1) for r in rows]
    else:
        kinds = set(kind_of(v) for v in obj)
        for v in obj:
            if isinstance(v, (list, tuple)):
                raise ValueError('inhomogeneous shape')
        shape = (len(obj),)
        segs = [Seg(('lit', v), 0, 1) for v in obj]
    for k in ('object', 'str', 'complex', 'float', 'int', 'bool'):
        if k in kinds:
            kind = k
            break
    if dt is None:
        d = SymDType(_KIND_DEFAULT[kind])
    else:
        d = dt
        if kind in ('str', 'object') and d.kind in 'iufc':
            raise ValueError('could not convert to a number')
        if d.name in INT_RANGE:
            if kind in ('float', 'complex'):
                pass
            lo, hi = INT_RANGE[d.name]
            for sg in segs:
                vals = sg.src[1] if isinstance(sg.src[1], tuple) else (sg.src[1],)
                for v in vals:
                    if isinstance(v, int) and not isinstance(v, bool):
                        if v < lo or v > hi:
                            raise OverflowError(f'Python integer out of bounds for {d.name}')
    return ndarray(d, shape, Seq(segs))


def asarray(a, dtype=None, order=None):
    return array(a, dtype=dtype, copy=False)


def array(a, dtype=None, copy=True, ndmin=0, order=None):
    dt = None if dtype is None else globals()['dtype'](dtype)
    if isinstance(a, ndarray):
        a._check_alive()
        if dt is None or (dt.name == a.dtype.name and dt.gt == a.dtype.gt):
            if copy:
                out = ndarray(a.dtype, a._shape, a._rows())
            else:
                out = a
        else:
            out = a.astype(dt)
        while out.ndim < ndmin:
            out = _getitem(out, None)        # prepend axes of length 1 (np.array(..., ndmin=k))
        return out
    if isinstance(a, SeqInput):
        if a.kind in ('str', 'object') and dt is not None and dt.kind in 'iufc':
            raise ValueError('could not convert string to float')
        d0 = _KIND_DEFAULT[a.kind]
        src = ('typed', d0, a.src)
        d = dt if dt is not None else SymDType(d0)
        if d.name != d0:
            src = cast_src(src, d.name)
        return ndarray(d, (a.n,) + a.atom, Seq((Seg(src, a.lo, a.lo + a.n),)))
    if isinstance(a, (list, tuple)):
        return _from_pyseq(a, dt)
    if isinstance(a, (bool, int, float, complex)):
        k = ('bool' if isinstance(a, bool) else 'int' if isinstance(a, int)
             else 'float' if isinstance(a, float) else 'complex')
        d = dt if dt is not None else SymDType(_KIND_DEFAULT[k])
        if k == 'int' and d.name in INT_RANGE:
            lo, hi = INT_RANGE[d.name]
            if a < lo or a > hi:
                raise OverflowError(f'Python integer out of bounds for {d.name}')
        shape = (1,) if ndmin >= 1 else ()
        return ndarray(d, shape, Seq.of(('lit', a), 1))
    if isinstance(a, ScalarInput):
        d0 = _KIND_DEFAULT[a.kind]
        d = dt if dt is not None else SymDType(d0)
        src = ('typed', d0, a.src)
        if d.name != d0:
            src = cast_src(src, d.name)
        shape = (1,) if ndmin >= 1 else ()
        return ndarray(d, shape, Seq.of(src, 1))
    if isinstance(a, str):
        if dt is not None and dt.kind in 'iufc':
            raise ValueError('could not convert string to float')
        return ndarray(SymDType('str96'), (1,) if ndmin >= 1 else (), Seq.of(('lit', a), 1))
    if isinstance(a, BadItem):
        raise a.exc
    if hasattr(a, '__array_model__'):
        return array(a.__array_model__(), dtype=dtype, copy=copy, ndmin=ndmin)
    raise ModelGap(f'np.array of {type(a).__name__}')


class ScalarInput:
    """An opaque Python number of a given kind (the scalar input form)."""

    def __init__(self, kind, src=('scalar', 0)):
        self.kind = kind
        self.src = src


class BadItem:
    """An object that NumPy cannot convert: np.asarray raises `exc`."""

    def __init__(self, exc):
        self.exc = exc
        # a list-like bad item has __len__, a scalar-like one does not; harness picks
    # no __len__ by default


class BadSeqItem(BadItem):
    def __len__(self):
        return 1


def isscalar(x):
    return isinstance(x, (bool, int, float, complex, str, bytes, generic, ScalarInput))


def issubdtype(t, parent):
    if parent is integer:
        if t is int:
            return True
        if isinstance(t, type) and issubclass(t, integer):
            return True
        return False
    raise ModelGap('issubdtype')


def zeros(shape, dtype=None, order='C'):
    d = globals()['dtype'](dtype)
    if not hasattr(shape, '__len__'):
        shape = (shape,)
    shape = tuple(shape)
    for x in shape:
        if isinstance(x, bool):
            pass
        if x < 0:
            raise ValueError('negative dimensions are not allowed')
    return ndarray(d, shape, Seq.of(('zero',), shape[0] if shape else 1), order=order)


def empty(shape, dtype=None, order='C'):
    d = globals()['dtype'](dtype)
    if not hasattr(shape, '__len__'):
        shape = (shape,)
    shape = tuple(shape)
    for x in shape:
        if x < 0:
            raise ValueError('negative dimensions are not allowed')
    return ndarray(d, shape, Seq.of(('uninit',), shape[0] if shape else 1))


def full(shape, fill_value, dtype=None):
    d = globals()['dtype'](dtype)
    if not hasattr(shape, '__len__'):
        shape = (shape,)
    shape = tuple(shape)
    return ndarray(d, shape, Seq.of(fill_src(fill_value, d.name), shape[0]))


def arange(n, dtype=None):
    d = globals()['dtype'](dtype if dtype is not None else 'int64')
    return ndarray(d, (n,), Seq.of(('arange',), n))


def prod(x):
    if isinstance(x, ndarray):
        raise ModelGap('prod of array')
    return _prod(x)


def diff(a, axis=-1):
    if not isinstance(a, ndarray) or a.ndim != 2 or a.shape[1] != 2:
        if isinstance(a, ndarray) and a.ndim == 1 and a.shape[0] == 2:
            segs = a._rows().segs
            vals = [s.src[1] for s in segs]
            return ndarray(a.dtype, (1,), Seq.of(('lit', vals[1] - vals[0]), 1))
        raise ModelGap('diff')
    out = []
    for s in a._rows().segs:
        if s.src[0] != 'lit':
            raise ModelGap('diff of non-literal rows')
        v = s.src[1]
        # a literal row segment is always exactly one row (lo=0, hi=1) or empty
        if s.hi - s.lo == 1:
            out.append(Seg(('lit', (v[1] - v[0],)), 0, 1))
    return ndarray(a.dtype, (len(out), 1), Seq(out))


def concatenate(arrs, axis=0):
    arrs = list(arrs)
    d = arrs[0].dtype
    rows = Seq()
    n = 0
    for x in arrs:
        r = x._rows()
        if x.dtype.name != d.name:
            r = r.map_src(lambda s: cast_src(s, d.name))
        rows = rows.concat(r)
        n = n + x.shape[0]
    return ndarray(d, (n,) + arrs[0].shape[1:], rows)


def ascontiguousarray(a, dtype=None):
    return asarray(a, dtype=dtype)


class memmap(ndarray):
    """np.memmap(filename=<open binary file object>, mode, shape, dtype, order)."""

    def __init__(self, filename, dtype='uint8', mode='r+', offset=0, shape=None, order='C'):
        from . import symfs
        d = globals()['dtype'](dtype)
        if mode not in ('r', 'r+', 'c', 'w+', 'readonly', 'readwrite'):
            raise ValueError(f"mode must be one of ['r', 'c', 'r+', 'w+'] (got {mode!r})")
        if mode in ('w+',):
            raise ModelGap('memmap w+')
        fobj, own = symfs.file_for_memmap(filename, mode)
        if shape is None:
            raise ModelGap('memmap without shape')
        if not hasattr(shape, '__len__'):
            shape = (shape,)
        shape = tuple(_as_int(x) if isinstance(x, (int64, NarrowInt)) else x for x in shape)
        for x in shape:
            if isinstance(x, bool):
                raise TypeError("'bool' object cannot be interpreted as an index-sized int")
            if not isinstance(x, int):
                raise TypeError(f"'{type(x).__name__}' object cannot be interpreted as an "
                                f"integer")
        for x in shape:
            if x < 0:
                raise ValueError('negative dimensions are not allowed')
        shape = tuple(shape)
        nbytes = _prod(shape) * d.itemsize
        node = fobj.node
        if nbytes == 0:
            raise ValueError('cannot mmap an empty file')
        if mode in ('r+', 'readwrite') and not fobj.writable_flag:
            raise PermissionError('mmap: file not open for writing')
        if node.size() < nbytes:
            if mode in ('r+', 'readwrite'):
                # measured (NumPy >= 2.2): a file that is too short is EXTENDED with zero bytes
                symfs.truncate_node(node, nbytes)
            else:
                raise ValueError('mmap length is greater than file size')
        ndarray.__init__(self, d, shape, None, writeable=(mode in ('r+', 'readwrite', 'c')),
                         order=order)
        self._node = node
        self._order = order
        self._mode = mode
        self._mmap = symfs.MmapHandle(node, self)
        # measured NumPy behaviour: the file position is left at end of file
        fobj.pos = node.size()
        if own:
            fobj.close()

    @property
    def _mapowner(self):
        return self

    def __del__(self):
        # like the real thing: the mapping goes when the last reference to the memmap (or a view of it) goes
        m = self.__dict__.get('_mmap')
        if m is not None:
            m.closed = True

    def _check_alive(self):
        if self._mmap.closed:
            raise UseAfterUnmap('access to a closed memory map')

    def _rows(self):
        self._check_alive()
        return self._node.decode(self.dtype, self._shape[1:], self._shape[0], self._order)

    def _store(self, rows):
        self._check_alive()
        self._node.store_rows(self.dtype, self._shape[1:], self._shape[0], rows)

    def flush(self):
        pass


def fromfile(file, dtype=float, count=-1):
    raise ModelGap('fromfile')
