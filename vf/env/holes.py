"""Formatting holes: symbolic ints rendered as placeholders (DESIGN.md 2.5)."""
from crosshair.core_and_libs import NoTracing
from crosshair.util import CrossHairValue

HOLES = []
L, R = '⟦', '⟧'


def reset():
    del HOLES[:]


def _is_sym(v):
    with NoTracing():
        return isinstance(v, CrossHairValue)


def hole(term):
    HOLES.append(term)
    return f'{L}{len(HOLES) - 1}{R}'


def symrepr(v):
    if isinstance(v, str):
        if _is_sym(v):
            return "'" + v + "'"
        return repr(v)
    return symstr(v)


def symstr(v):
    if isinstance(v, str):
        return v
    if _is_sym(v):
        if isinstance(v, (bool, int, float)):
            return hole(v)
        return hole(v)
    if isinstance(v, tuple):
        if len(v) == 1:
            return '(' + symrepr(v[0]) + ',)'
        return '(' + ', '.join([symrepr(x) for x in v]) + ')'
    if isinstance(v, list):
        return '[' + ', '.join([symrepr(x) for x in v]) + ']'
    if isinstance(v, dict):
        return '{' + ', '.join([symrepr(k) + ': ' + symrepr(x) for k, x in v.items()]) + '}'
    if isinstance(v, (set, frozenset)):
        if not v:
            return 'set()'
        return '{' + ', '.join(sorted([symrepr(x) for x in v])) + '}'
    if isinstance(v, BaseException):
        a = v.args
        if len(a) == 1:
            return symstr(a[0])
        if len(a) == 0:
            return ''
        if isinstance(v, OSError) and len(a) == 2:
            return f'[Errno {a[0]}] ' + symstr(a[1])
        return symstr(tuple(a))
    if isinstance(v, type):
        return repr(v)
    return str(v)


def symfmt(parts):
    out = []
    for p in parts:
        if isinstance(p, str):
            out.append(p)
        else:
            val, conv, spec = p
            if conv == 114:      # !r
                s = symrepr(val)
            else:
                s = symstr(val)
            if spec:
                if _is_sym(val):
                    raise_gap('format spec on symbolic value')
                s = format(val, spec)
            out.append(s)
    return ''.join(out)


def raise_gap(msg):
    from ..engine import ModelGap
    raise ModelGap(msg)


def symformat(template, *args, **kw):
    if kw or '{}' not in template:
        return template.format(*args, **kw)
    pieces = template.split('{}')
    if len(pieces) != len(args) + 1:
        return template.format(*args)
    out = [pieces[0]]
    for a, p in zip(args, pieces[1:]):
        out.append(symstr(a))
        out.append(p)
    return ''.join(out)
