"""Formatting holes: symbolic ints rendered as placeholders (DESIGN.md 2.5)."""
from crosshair.core_and_libs import NoTracing
from crosshair.util import CrossHairValue

HOLES = []
L, R = '⟦', '⟧'


def reset():
    del HOLES[:]


def _is_sym(v):
    with NoTracing():
        return isinstance(v, CrossHairValue)


def hole(term):
    HOLES.append(term)
    return f'{L}{len(HOLES) - 1}{R}'


def symrepr(v):
    if isinstance(v, str):
        if _is_sym(v):
            return "'" + v + "'"
        return repr(v)
    return symstr(v)


def symstr(v):
    if isinstance(v, str):
        return v
    if _is_sym(v):
        if isinstance(v, (bool, int, float)):
            return hole(v)
        return hole(v)
    if isinstance(v, tuple):
        if len(v) == 1:
            return '(' + symrepr(v[0]) + ',)'
        return '(' + ', '.join([symrepr(x) for x in v]) + ')'
    if isinstance(v, list):
        return '[' + ', '.join([symrepr(x) for x in v]) + ']'
    if isinstance(v, dict):
        return '{' + ', '.join([symrepr(k) + ': ' + symrepr(x) for k, x in v.items()]) + '}'
    if isinstance(v, (set, frozenset)):
        if not v:
            return 'set()'
        return '{' + ', '.join(sorted([symrepr(x) for x in v])) + '}'
    if isinstance(v, BaseException):
        a = v.args
        if len(a) == 1:
            return symstr(a[0])
        if len(a) == 0:
            return ''
        if isinstance(v, OSError) and len(a) == 2:
            return f'[Errno {a[0]}] ' + symstr(a[1])
        return symstr(tuple(a))
    if isinstance(v, type):
        return repr(v)
    return str(v)


def symfmt(parts):
    out = []
    for p in parts:
        if isinstance(p, str):
            out.append(p)
        else:
            val, conv, spec = p
            if conv == 114:      # !r
                s = symrepr(val)
            else:
                s = symstr(val)
            if spec:
                if _is_sym(val):
                    raise_gap('format spec on symbolic value')
                s = format(val, spec)
            out.append(s)
    return ''.join(out)


def raise_gap(msg):
    from ..engine import ModelGap
    raise ModelGap(msg)


def symformat(template, *args, **kw):
    if kw or '{}' not in template:
        return template.format(*args, **kw)
    pieces = template.split('{}')
    if len(pieces) != len(args) + 1:
        return template.format(*args)
    out = [pieces[0]]
    for a, p in zip(args, pieces[1:]):
        out.append(symstr(a))
        out.append(p)
    return ''.join(out)


# ---- comparing texts that contain holes -----------------------------------------------------------------
import re as _re

_HOLE = _re.compile(L + r'(\d+)' + R)


def has_holes(s):
    return isinstance(s, str) and L in s


def tokens(text):
    """[literal, hole-term, literal, hole-term, ..., literal]"""
    out = []
    pos = 0
    for m in _HOLE.finditer(text):
        out.append(text[pos:m.start()])
        out.append(HOLES[int(m.group(1))])
        pos = m.end()
    out.append(text[pos:])
    return out


def term_of(token):
    """'⟦k⟧' -> the symbolic term; a decimal literal -> int"""
    m = _HOLE.fullmatch(token)
    if m:
        return HOLES[int(m.group(1))]
    return int(token)


def text_equal(a, b):
    """literal parts equal as strings, paired holes equal as TERMS (decided by the solver).
    Returns (ok, reason)."""
    if not isinstance(a, str) or not isinstance(b, str):
        return False, 'not text'
    ta, tb = tokens(a), tokens(b)
    if len(ta) != len(tb):
        return False, f'different number of symbolic values ({len(ta) // 2} vs {len(tb) // 2})'
    for i in range(len(ta)):
        if i % 2 == 0:
            if ta[i] != tb[i]:
                # find first difference for the report
                x, y = ta[i], tb[i]
                j = 0
                while j < min(len(x), len(y)) and x[j] == y[j]:
                    j += 1
                return False, f'text differs: ...{x[max(0, j - 30):j + 40]!r} vs ...{y[max(0, j - 30):j + 40]!r}'
        else:
            if not (ta[i] == tb[i]):
                return False, f'a number in the text differs (near {ta[i - 1][-40:]!r})'
    return True, ''


def wrap_keep(real_wrap):
    """textwrap.fill is pure layout; with placeholders (whose width is not the number's width)
    line breaks would differ between two renderings of the same text, so text with holes is left
    unwrapped on both sides of every comparison."""
    def wrap(s):
        if has_holes(s):
            return s
        return real_wrap(s)
    return wrap
