"""`json` as seen by the loaded Darr source."""
from .symfs import dumps, dump, loads, load, JSONEncoder, JSONDecodeError
