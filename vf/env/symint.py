"""Fork-free min / max / if-then-else on (possibly symbolic) ints.

CrossHair forks the path at every `if` over an undecided symbolic bool.  Clamping
arithmetic (slice bounds, interval cuts, partial writes) would multiply paths without
changing anything the property depends on, so it is expressed as z3 `If` terms instead:
the solver sees exactly the same arithmetic, as one path."""
import z3
from crosshair.core_and_libs import NoTracing
from crosshair.libimpl.builtinslib import SymbolicInt, SymbolicBool


def _z(v):
    if isinstance(v, SymbolicInt):
        return v.var
    if isinstance(v, SymbolicBool):
        return z3.If(v.var, z3.IntVal(1), z3.IntVal(0))
    if isinstance(v, bool):
        return z3.IntVal(1 if v else 0)
    if isinstance(v, int):
        return z3.IntVal(v)
    return None


def ite(c, a, b):
    with NoTracing():
        if isinstance(c, SymbolicBool):
            za, zb = _z(a), _z(b)
            if za is not None and zb is not None:
                return SymbolicInt(z3.If(c.var, za, zb))
        elif isinstance(c, bool):
            return a if c else b
    return a if c else b


def smin(a, b):
    return ite(a < b, a, b)


def smax(a, b):
    return ite(a > b, a, b)


def clamp(x, lo, hi):
    return smax(lo, smin(x, hi))


def band(a, b):
    """fork-free `a and b` for bools (returns a symbolic bool when either is symbolic)."""
    with NoTracing():
        sa, sb = isinstance(a, SymbolicBool), isinstance(b, SymbolicBool)
        if sa or sb:
            za = a.var if sa else z3.BoolVal(bool(a))
            zb = b.var if sb else z3.BoolVal(bool(b))
            return SymbolicBool(z3.And(za, zb))
    return a and b


def bor(a, b):
    with NoTracing():
        sa, sb = isinstance(a, SymbolicBool), isinstance(b, SymbolicBool)
        if sa or sb:
            za = a.var if sa else z3.BoolVal(bool(a))
            zb = b.var if sb else z3.BoolVal(bool(b))
            return SymbolicBool(z3.Or(za, zb))
    return a or b


def bnot(a):
    with NoTracing():
        if isinstance(a, SymbolicBool):
            return SymbolicBool(z3.Not(a.var))
    return not a
