"""In-memory POSIX-like file system + open()/Path/os/json/tarfile/shutil models.

One `World` per explored path (harnesses create it and `install()` it).  File content is
byte-granular provenance (Seq of byte segments whose source names the array rows and the
encoding they were written with), text files hold a str / JsonDoc / TORN marker.
Faults: per-file byte limit (write refusal), crash at the k-th mutation primitive with a
torn in-flight write.  See DESIGN.md 2.3 / 2.6.
"""
import errno
import json as _realjson

from ..engine import ModelGap, is_symbolic
from .seq import Seq, Seg
from .symint import ite, smin, smax, clamp, band, bnot, bor
from . import symnp

_W = None


def install(world):
    global _W
    _W = world
    return world


def world():
    return _W


class Crash(BaseException):
    """The modelled process died here."""


class _Torn:
    def __repr__(self):
        return '<TORN>'


TORN = _Torn()


class JsonDoc:
    """Text that is the serialisation of `obj` (kept structurally)."""

    def __init__(self, obj):
        self.obj = obj

    def __repr__(self):
        return f'JsonDoc({self.obj!r})'


class ReadmeToken:
    """Stub README text (used when README generation is not the subject)."""

    def __init__(self, key):
        self.key = key

    def __repr__(self):
        return f'README{self.key!r}'


class Dir:
    kind = 'dir'

    def __init__(self):
        self.entries = {}


class Symlink:
    kind = 'symlink'

    def __init__(self, target):
        self.target = target


class File:
    kind = 'file'

    def __init__(self):
        self.bin = Seq()      # byte segments, or None when the file holds text
        self.text = ''        # str | JsonDoc | TORN | ReadmeToken, or None when binary
        self.limit = None     # maximal size in bytes the 'kernel' allows (symbolic)
        self.tag = None       # free-form label for foreign files

    def size(self):
        if self.bin is not None:
            return self.bin.length()
        t = self.text
        if isinstance(t, str):
            return len(t)
        return 1

    def is_empty(self):
        return self.size() == 0

    # ---- binary decode / encode ------------------------------------------------------------
    def decode(self, dt, atom, nrows, order='C'):
        """Rows seen by a reader that interprets the first nrows*rb bytes as (dt, atom)."""
        if self.bin is None:
            if self.text == '':
                return Seq()
            raise ModelGap('binary read of a text file')
        rb = symnp._prod(atom) * dt.itemsize
        need = nrows * rb
        if len(atom) > 0 and order != 'C' and symnp._prod(atom) > 1:
            # column-major interpretation of row-major bytes (identical when all trailing extents are 1)
            return Seq.of(('forder', symnp._segs_key(self.bin)), nrows)
        # same bytes, same interpretation -> same rows (Seq objects are immutable)
        key = (id(self.bin), dt.name, dt.gt, tuple(atom), id(nrows) if is_symbolic(nrows) else ('c', nrows))
        hit = _W.decode_cache.get(key)
        if hit is not None and hit[0] is self.bin and (hit[1] is nrows or not is_symbolic(nrows)):
            return hit[2]
        res = self._decode(dt, atom, nrows, rb, need)
        _W.decode_cache[key] = (self.bin, nrows, res)
        return res

    def _decode(self, dt, atom, nrows, rb, need):
        out = []
        pos = 0
        for s in self.bin.segs:
            n = s.hi - s.lo
            take = clamp(need - pos, 0, n)      # bytes of this segment inside the mapping
            src = s.src
            if src[0] == 'E' and src[1] == dt.name and src[2] == dt.gt and src[3] == tuple(atom):
                if rb == 1:
                    bad = False
                else:
                    aligned = band(band(s.lo % rb == 0, take % rb == 0), pos % rb == 0)
                    bad = band(take > 0, bnot(aligned))
                if bad:
                    out.append(Seg(('garbage', src, s.lo, pos), 0, nrows - (pos // rb)))
                    return Seq(out)
                out.append(Seg(src[4], s.lo // rb, (s.lo + take) // rb))
            elif src[0] == 'Z':
                bad = band(take > 0, bnot(band(take % rb == 0, pos % rb == 0)))
                if bad:
                    out.append(Seg(('garbage', src, s.lo, pos), 0, nrows - (pos // rb)))
                    return Seq(out)
                out.append(Seg(('zero',), 0, take // rb))
            else:
                if take > 0:
                    # bytes that do not decode as rows of the expected encoding
                    out.append(Seg(('garbage', src, s.lo, pos), 0, nrows - (pos // rb)))
                    return Seq(out)
            pos = pos + take
        return Seq(out)

    def store_rows(self, dt, atom, nrows, rows):
        rb = symnp._prod(atom) * dt.itemsize
        if _W.tick('mmapwrite'):
            raise Crash('before write through the memory map')
        new = encode_rows(rows, dt, atom)
        size = self.bin.length()
        self.bin = new.concat(self.bin.cut(nrows * rb, size))


def encode_rows(rows, dt, atom):
    rb = symnp._prod(atom) * dt.itemsize
    atom = tuple(atom)
    return Seq(Seg(('E', dt.name, dt.gt, atom, s.src), s.lo * rb, s.hi * rb)
               for s in rows.segs)


class MmapHandle:
    def __init__(self, node, arr):
        self.node = node
        self.closed = False
        _W.maps.append(self)

    def close(self):
        self.closed = True

    def flush(self):
        pass


class World:
    def __init__(self, cwd='/w'):
        self.root = Dir()
        self.cwd = cwd
        self.files = []       # every file object ever opened
        self.maps = []        # every mapping ever created
        self.ticks = 0
        self.crash_at = None  # symbolic int or None
        self.torn = 0         # bytes of the in-flight binary write that made it (symbolic)
        self.torn_text = False
        self.crashed = False
        self.log = []
        self.decode_cache = {}
        # measured (NumPy 2.5.3): ndarray.tofile swallows a refused / short write when the data fit the
        # stdio buffer - no exception, the file simply ends up shorter than requested.  A harness that
        # sets this (symbolic) flag lets every refused write be silent.
        self.silent_refusal = False
        self.filenos = {}
        d = self.root
        for p in [x for x in cwd.split('/') if x]:
            nd = Dir()
            d.entries[p] = nd
            d = nd

    # ---- fault injection --------------------------------------------------------------------
    def tick(self, what):
        """Called before every primitive that changes the file system."""
        if self.crashed:
            raise Crash('mutation after crash')
        if self.crash_at is not None:
            if self.ticks == self.crash_at:
                self.crashed = True
                return True
        self.ticks = self.ticks + 1
        return False

    # ---- path resolution ---------------------------------------------------------------------
    def _walk(self, pathstr, follow_last=True, depth=0):
        """returns (parentdir, name, node-or-None). Raises FileNotFoundError /
        NotADirectoryError for missing/invalid intermediate components."""
        if depth > 8:
            raise OSError(errno.ELOOP, 'too many symlinks')
        if not isinstance(pathstr, str):
            pathstr = str(pathstr)
        if pathstr == '':
            raise FileNotFoundError(errno.ENOENT, 'empty path')
        if pathstr.startswith('/'):
            full = pathstr
        else:
            full = self.cwd + '/' + pathstr
        trailing = full.endswith('/')
        comps = [c for c in full.split('/') if c != '' and c != '.']
        stack = [self.root]
        parent = None
        name = None
        node = self.root
        n = len(comps)
        for idx in range(n):
            c = comps[idx]
            last = (idx == n - 1)
            if not isinstance(node, Dir):
                raise NotADirectoryError(errno.ENOTDIR, 'not a directory')
            if c == '..':
                if len(stack) > 1:
                    stack.pop()
                node = stack[-1]
                parent = None
                name = None
                continue
            parent = node
            name = c
            child = None
            for k, v in node.entries.items():
                if k == c:
                    child = v
                    break
            if child is None:
                if last:
                    return parent, name, None
                raise FileNotFoundError(errno.ENOENT, 'no such file or directory')
            if isinstance(child, Symlink) and (not last or follow_last or trailing):
                tgt = child.target
                if not tgt.startswith('/'):
                    raise ModelGap('relative symlink')
                p2, n2, nd2 = self._walk(tgt, True, depth + 1)
                if nd2 is None:
                    if last:
                        return p2, n2, None
                    raise FileNotFoundError(errno.ENOENT, 'dangling symlink')
                child = nd2
                if last:
                    parent, name = p2, n2
            node = child
            if isinstance(node, Dir):
                stack.append(node)
        if trailing and not isinstance(node, Dir):
            raise NotADirectoryError(errno.ENOTDIR, 'not a directory')
        return parent, name, node

    def lookup(self, pathstr, follow=True):
        try:
            return self._walk(pathstr, follow)[2]
        except (FileNotFoundError, NotADirectoryError):
            return None

    # ---- convenience for harnesses (no ticks) -------------------------------------------------
    def mkdirs(self, pathstr):
        d = self.root
        for p in [x for x in pathstr.split('/') if x]:
            if p not in d.entries:
                d.entries[p] = Dir()
            d = d.entries[p]
        return d

    def put(self, pathstr, node):
        i = pathstr.rstrip('/').rfind('/')
        d = self.mkdirs(pathstr[:i])
        d.entries[pathstr[i + 1:]] = node
        return node

    def open_handles(self):
        n = 0
        for f in self.files:
            if not f.closed:
                n += 1
        for m in self.maps:
            if not m.closed:
                n += 1
        return n


# ---- file objects ------------------------------------------------------------------------------
class _FileState:
    def __init__(self):
        self.closed = False


class SymFile:
    def __init__(self, node, mode, name):
        self.node = node
        self.mode = mode
        self.name = name
        self.binary = 'b' in mode
        m = mode.replace('b', '').replace('t', '')
        self.readable_flag = m in ('r', 'r+', 'w+', 'a+', 'x+')
        self.writable_flag = m in ('r+', 'w', 'w+', 'a', 'a+', 'x', 'x+')
        self.append = m in ('a', 'a+')
        self.pos = 0
        self._st = _FileState()
        _W.files.append(self._st)     # the world keeps the STATE, not the object: a file object that loses its last
                                      # reference is closed by the interpreter, exactly like the real thing

    @property
    def closed(self):
        return self._st.closed

    @closed.setter
    def closed(self, v):
        self._st.closed = v

    def __del__(self):
        st = self.__dict__.get('_st')
        if st is not None:
            st.closed = True

    def __enter__(self):
        return self

    def __exit__(self, *a):
        self.close()
        return False

    def close(self):
        self.closed = True

    def _chk(self):
        if self.closed:
            raise ValueError('I/O operation on closed file.')

    def flush(self):
        self._chk()

    def fileno(self):
        self._chk()
        n = 3 + len(_W.filenos)
        for k, v in _W.filenos.items():
            if v is self:
                return k
        _W.filenos[n] = self
        return n

    def readable(self):
        return self.readable_flag

    def writable(self):
        return self.writable_flag

    def tell(self):
        self._chk()
        return self.pos

    def seek(self, off, whence=0):
        self._chk()
        if whence == 0:
            self.pos = off
        elif whence == 1:
            self.pos = self.pos + off
        elif whence == 2:
            self.pos = self.node.size() + off
        else:
            raise ValueError('invalid whence')
        return self.pos

    def truncate(self, size=None):
        self._chk()
        if not self.writable_flag:
            import io
            raise io.UnsupportedOperation('File not open for writing')
        if size is None:
            size = self.pos
        truncate_node(self.node, size)
        return size

    def read(self, n=-1):
        self._chk()
        if not self.readable_flag:
            import io
            raise io.UnsupportedOperation('not readable')
        if self.binary:
            return BytesToken(self.node)
        t = self.node.text
        if t is None:
            raise ModelGap('text read of binary file')
        if t is TORN:
            return TornText()
        return t

    def write(self, data):
        self._chk()
        if not self.writable_flag:
            import io
            raise io.UnsupportedOperation('not writable')
        node = self.node
        if self.binary:
            from . import symnp
            if isinstance(data, symnp.ModelBytes):
                # fd.write(arr.tobytes()): same bytes as arr.tofile(fd) (a refused write raises here as well)
                array_tofile(data.arr, self)
                return len(data)
            raise ModelGap('raw binary write')
        if isinstance(data, JsonText):
            data = data.doc
        elif not isinstance(data, (str, ReadmeToken)):
            raise TypeError('write() argument must be str')
        crashed = _W.tick('textwrite')
        if crashed:
            if _W.torn_text:
                node.text = TORN
                node.bin = None
            raise Crash('during text write')
        cur = node.text
        if cur is None or cur == '':
            node.text = data
        elif isinstance(cur, str) and isinstance(data, str):
            node.text = cur + data
        else:
            node.text = ('cat', cur, data)
        node.bin = None
        return 1

    def __iter__(self):
        raise ModelGap('line iteration')


class BytesToken:
    def __init__(self, node):
        self.node = node

    def __bool__(self):
        return self.node.size() > 0


class TornText(str):
    pass


def truncate_node(node, size):
    if size < 0:
        raise OSError(errno.EINVAL, 'Invalid argument')
    crashed = _W.tick('truncate')
    if crashed:
        raise Crash('before truncate')
    if node.bin is None:
        if size == 0:
            node.text = ''
            node.bin = Seq()
            return
        raise ModelGap('truncate of text file')
    cur = node.bin.length()
    if size <= cur:
        node.bin = node.bin.cut(0, size)
    else:
        if node.limit is not None and size > node.limit:
            raise OSError(errno.EFBIG, 'File too large')
        node.bin = node.bin.concat(Seq.of(('Z',), size - cur))
    if size != 0:
        node.text = None


def _fspath(p):
    if isinstance(p, str):
        return p
    if isinstance(p, Path):
        return p._s
    if isinstance(p, SymFile):
        raise ModelGap('open(fd)')
    raise TypeError(f'expected str, bytes or os.PathLike object, not {type(p).__name__}')


def open(file, mode='r', buffering=-1, encoding=None, errors=None, newline=None,
         closefd=True, opener=None):
    p = _fspath(file)
    if not isinstance(mode, str):
        raise TypeError('open() argument mode must be str')
    m = mode.replace('b', '', 1).replace('t', '', 1)
    if m not in ('r', 'r+', 'w', 'w+', 'a', 'a+', 'x', 'x+') or ('b' in mode and 't' in mode):
        raise ValueError(f"invalid mode: '{mode}'")
    if 'b' in mode and encoding is not None:
        raise ValueError("binary mode doesn't take an encoding argument")
    parent, name, node = _W._walk(p, follow_last=True)
    if node is not None and isinstance(node, Dir):
        raise IsADirectoryError(errno.EISDIR, 'Is a directory')
    if m[0] == 'r':
        if node is None:
            raise FileNotFoundError(errno.ENOENT, 'No such file or directory')
    elif m[0] == 'x':
        if node is not None:
            raise FileExistsError(errno.EEXIST, 'File exists')
    if node is None:
        if parent is None:
            raise FileNotFoundError(errno.ENOENT, 'no parent')
        if _W.tick('create'):
            raise Crash('before create')
        node = File()
        parent.entries[name] = node
    elif m[0] == 'w':
        if _W.tick('otrunc'):
            raise Crash('before O_TRUNC')
        node.bin = Seq()
        node.text = ''
    f = SymFile(node, mode, p)
    if m[0] == 'a':
        f.pos = node.size()
    return f


def file_for_memmap(filename, mode):
    if isinstance(filename, SymFile):
        filename._chk()
        return filename, False
    fm = 'rb' if mode in ('r', 'c', 'readonly') else 'r+b'
    return open(filename, fm), True


def array_tofile(arr, fd):
    if isinstance(fd, (str, Path)):
        f = open(fd, 'wb')
        try:
            _write_rows(f, arr)
        finally:
            f.close()
        return
    if not isinstance(fd, SymFile):
        raise ModelGap('tofile target')
    if fd.closed:
        raise ValueError('I/O operation on closed file')
    if not fd.binary:
        raise ModelGap('tofile on text file')
    if not fd.writable_flag:
        raise OSError(errno.EBADF, 'file not open for writing')
    _write_rows(fd, arr)


def _write_rows(f, arr):
    node = f.node
    rows = arr._rows()
    if arr.ndim == 0:
        atom = ()
    else:
        atom = arr.shape[1:]
    new = encode_rows(rows, arr.dtype, atom)
    total = new.length()
    if not total > 0:
        return
    pos = f.pos
    if f.append:
        pos = node.size()
    crashed = _W.tick('binwrite')
    allowed = total
    fail = None
    if crashed:
        t = _W.torn
        if t < 0 or t >= total:
            t = 0
        allowed = t
        fail = Crash('during binary write')
    elif node.limit is not None and pos + total > node.limit:
        allowed = smax(node.limit - pos, 0)
        fail = OSError(errno.EFBIG, 'File too large (fewer bytes written than requested)')
    if node.bin is None:
        if node.text == '':
            node.bin = Seq()
        else:
            raise ModelGap('binary write into text file')
    size = node.bin.length()
    if allowed > 0:
        head = node.bin.cut(0, smin(pos, size))
        if pos > size:
            head = head.concat(Seq.of(('Z',), pos - size))
        end = pos + allowed
        tail = node.bin.cut(smin(end, size), size)
        node.bin = head.concat(new.cut(0, allowed)).concat(tail)
        node.text = None
    f.pos = pos + allowed
    if fail is not None:
        if isinstance(fail, OSError) and _W.silent_refusal:
            f.pos = pos + total          # Python's notion of the position moves on; nothing is raised
            return
        raise fail


# ---- pathlib.Path ------------------------------------------------------------------------------
def _normstr(s):
    """pathlib normalisation: collapse '//' and '.', drop trailing '/', keep '..'."""
    if s == '':
        return '.'
    absolute = s.startswith('/')
    comps = [c for c in s.split('/') if c != '' and c != '.']
    body = '/'.join(comps)
    if absolute:
        return '/' + body
    return body if body else '.'


class StatResult:
    def __init__(self, size, isdir):
        self.st_size = size
        self.st_isdir = isdir


class Path:
    def __init__(self, *args):
        if len(args) == 0:
            self._s = '.'
            return
        s = None
        for a in args:
            if isinstance(a, Path):
                a = a._s
            elif not isinstance(a, str):
                raise TypeError(f"expected str, bytes or os.PathLike object, not "
                                f"{type(a).__name__}")
            if s is None or a.startswith('/'):
                s = a
            else:
                s = s + '/' + a
        self._s = _normstr(s)

    # -- pure path --
    def __str__(self):
        return self._s

    def __fspath__(self):
        return self._s

    def __repr__(self):
        return f"SymPath('{self._s}')"

    def __eq__(self, o):
        return isinstance(o, Path) and self._s == o._s

    def __hash__(self):
        return hash(self._s)

    def __truediv__(self, o):
        return Path(self, o)

    def __rtruediv__(self, o):
        return Path(o, self)

    def joinpath(self, *o):
        return Path(self, *o)

    @property
    def name(self):
        s = self._s
        if s == '.' or s == '/':
            return ''
        return s[s.rfind('/') + 1:]

    @property
    def parent(self):
        s = self._s
        i = s.rfind('/')
        if i < 0:
            return Path('.')
        if i == 0:
            return Path('/')
        return Path(s[:i])

    @property
    def parts(self):
        s = self._s
        out = []
        if s.startswith('/'):
            out.append('/')
        out.extend([c for c in s.split('/') if c])
        return tuple(out)

    @property
    def suffix(self):
        n = self.name
        i = n.rfind('.')
        return n[i:] if i > 0 else ''

    def as_posix(self):
        return self._s

    def is_absolute(self):
        return self._s.startswith('/')

    def absolute(self):
        if self._s.startswith('/'):
            return self
        if self._s == '.':
            return Path(_W.cwd)
        return Path(_W.cwd + '/' + self._s)

    def resolve(self, strict=False):
        a = self.absolute()._s
        out = []
        for c in a.split('/'):
            if c == '' or c == '.':
                continue
            if c == '..':
                if out:
                    out.pop()
                continue
            out.append(c)
        # symlinks inside array paths are only placed by harnesses that do not call resolve
        return Path('/' + '/'.join(out))

    # -- file system --
    def _node(self, follow=True):
        return _W.lookup(self._s, follow)

    def exists(self):
        return self._node() is not None

    def is_dir(self):
        return isinstance(self._node(), Dir)

    def is_file(self):
        return isinstance(self._node(), File)

    def is_symlink(self):
        return isinstance(self._node(False), Symlink)

    def stat(self):
        n = self._node()
        if n is None:
            raise FileNotFoundError(errno.ENOENT, 'No such file or directory')
        if isinstance(n, Dir):
            return StatResult(4096, True)
        return StatResult(n.size(), False)

    def unlink(self, missing_ok=False):
        unlink(self._s, missing_ok)

    def rmdir(self):
        rmdir(self._s)

    def mkdir(self, mode=0o777, parents=False, exist_ok=False):
        mkdir(self._s, parents=parents, exist_ok=exist_ok)

    def iterdir(self):
        n = self._node()
        if not isinstance(n, Dir):
            raise NotADirectoryError(errno.ENOTDIR, 'not a directory')
        return [Path(self, k) for k in list(n.entries.keys())]

    def open(self, mode='r', buffering=-1, encoding=None, errors=None, newline=None):
        return open(self._s, mode, buffering, encoding, errors, newline)

    def read_text(self, encoding=None):
        with open(self._s, 'r') as f:
            return f.read()

    def write_text(self, data, encoding=None):
        with open(self._s, 'w') as f:
            f.write(data)

    def touch(self, exist_ok=True):
        if self._node() is None:
            open(self._s, 'w').close()
        elif not exist_ok:
            raise FileExistsError(errno.EEXIST, 'exists')


PurePath = Path
PosixPath = Path


# ---- os ----------------------------------------------------------------------------------------
def unlink(p, missing_ok=False):
    p = _fspath(p)
    parent, name, node = _W._walk(p, follow_last=False)
    if node is None:
        if missing_ok:
            return
        raise FileNotFoundError(errno.ENOENT, 'No such file or directory')
    if isinstance(node, Dir):
        raise IsADirectoryError(errno.EISDIR, 'Is a directory')
    if parent is None:
        raise ModelGap('unlink root')
    if _W.tick('unlink'):
        raise Crash('before unlink')
    key = None
    for k in parent.entries:
        if k == name:
            key = k
    del parent.entries[key]


def rmdir(p):
    p = _fspath(p)
    parent, name, node = _W._walk(p, follow_last=False)
    if node is None:
        raise FileNotFoundError(errno.ENOENT, 'No such file or directory')
    if not isinstance(node, Dir):
        raise NotADirectoryError(errno.ENOTDIR, 'Not a directory')
    if len(node.entries) > 0:
        raise OSError(errno.ENOTEMPTY, 'Directory not empty')
    if parent is None:
        raise ModelGap('rmdir of . or root')
    if _W.tick('rmdir'):
        raise Crash('before rmdir')
    key = None
    for k in parent.entries:
        if k == name:
            key = k
    del parent.entries[key]


def mkdir(p, mode=0o777, parents=False, exist_ok=False):
    p = _fspath(p)
    parent, name, node = _W._walk(p, follow_last=True)
    if node is not None:
        if exist_ok and isinstance(node, Dir):
            return
        raise FileExistsError(errno.EEXIST, 'File exists')
    if parent is None:
        raise FileNotFoundError(errno.ENOENT, 'no parent')
    if _W.tick('mkdir'):
        raise Crash('before mkdir')
    parent.entries[name] = Dir()


def truncate(p, length):
    if isinstance(p, SymFile):
        return p.truncate(length)
    p = _fspath(p)
    parent, name, node = _W._walk(p, follow_last=True)
    if node is None:
        raise FileNotFoundError(errno.ENOENT, 'No such file or directory')
    if isinstance(node, Dir):
        raise IsADirectoryError(errno.EISDIR, 'Is a directory')
    truncate_node(node, length)


def remove(p):
    unlink(p)


def rename(src, dst):
    src = _fspath(src)
    dst = _fspath(dst)
    sp, sn, snode = _W._walk(src, follow_last=False)
    if snode is None:
        raise FileNotFoundError(errno.ENOENT, 'no such file')
    dp, dn, dnode = _W._walk(dst, follow_last=False)
    if dp is None:
        raise FileNotFoundError(errno.ENOENT, 'no parent')
    if isinstance(dnode, Dir):
        if not isinstance(snode, Dir):
            raise IsADirectoryError(errno.EISDIR, 'is a directory')
        if dnode.entries:
            raise OSError(errno.ENOTEMPTY, 'not empty')
    if _W.tick('rename'):
        raise Crash('before rename')
    del sp.entries[sn]
    dp.entries[dn] = snode


replace = rename


def fsync(fd):
    return None


def fstat(fd):
    f = _W.filenos.get(fd)
    if f is None:
        raise OSError(errno.EBADF, 'Bad file descriptor')
    return StatResult(f.node.size(), False)


def stat(p):
    return Path(_fspath(p)).stat()


def listdir(p='.'):
    n = _W.lookup(_fspath(p))
    if not isinstance(n, Dir):
        raise NotADirectoryError(errno.ENOTDIR, 'not a directory')
    return list(n.entries.keys())


def fspath(p):
    return _fspath(p)


def getcwd():
    return _W.cwd


class _OsPath:
    @staticmethod
    def exists(p):
        return _W.lookup(_fspath(p)) is not None

    @staticmethod
    def isdir(p):
        return isinstance(_W.lookup(_fspath(p)), Dir)

    @staticmethod
    def isfile(p):
        return isinstance(_W.lookup(_fspath(p)), File)

    @staticmethod
    def getsize(p):
        return Path(_fspath(p)).stat().st_size

    @staticmethod
    def join(*a):
        return Path(*a)._s if a else ''

    @staticmethod
    def normpath(p):
        s = _fspath(p)
        absolute = s.startswith('/')
        out = []
        for c in s.split('/'):
            if c == '' or c == '.':
                continue
            if c == '..':
                if out and out[-1] != '..':
                    out.pop()
                elif not absolute:
                    out.append(c)
                continue
            out.append(c)
        r = '/'.join(out)
        if absolute:
            return '/' + r
        return r or '.'

    @staticmethod
    def abspath(p):
        return _OsPath.normpath(Path(_fspath(p)).absolute()._s)

    realpath = abspath

    @staticmethod
    def basename(p):
        s = _fspath(p)
        return s[s.rfind('/') + 1:]

    @staticmethod
    def dirname(p):
        s = _fspath(p)
        i = s.rfind('/')
        return s[:i] if i > 0 else ('/' if i == 0 else '')


path = _OsPath()
sep = '/'
linesep = '\n'
name = 'posix'
PathLike = Path


# ---- json --------------------------------------------------------------------------------------
class JsonText:
    """Return value of json.dumps: text denoting `doc`."""

    def __init__(self, doc):
        self.doc = JsonDoc(doc)


class JSONEncoder:
    def __init__(self, **kw):
        pass

    def default(self, o):
        raise TypeError(f'Object of type {type(o).__name__} is not JSON serializable')


class JSONDecodeError(ValueError):
    """same constructor arity as json.JSONDecodeError (Darr re-raises type(e)(str))"""

    def __init__(self, msg, doc, pos):
        ValueError.__init__(self, msg)
        self.msg, self.doc, self.pos = msg, doc, pos


def _jnorm(o, enc, skipkeys, sort_keys, depth=0):
    if depth > 12:
        raise ValueError('Circular reference detected')
    if o is None or isinstance(o, (bool, int, float, str)):
        if isinstance(o, TornText):
            raise ModelGap('torn text as value')
        return o
    if isinstance(o, (symnp._ListToken, symnp._ItemToken)):
        return o
    if isinstance(o, (list, tuple)):
        return [_jnorm(x, enc, skipkeys, sort_keys, depth + 1) for x in o]
    if isinstance(o, dict):
        items = []
        allstr = True
        for k, v in o.items():
            if isinstance(k, str):
                kk = k
            elif k is None:
                kk = 'null'
                allstr = False
            elif isinstance(k, bool):
                kk = 'true' if k else 'false'
                allstr = False
            elif isinstance(k, (int, float)):
                kk = _realjson.dumps(k)
                allstr = False
            else:
                if skipkeys:
                    continue
                raise TypeError(f'keys must be str, int, float, bool or None, not '
                                f'{type(k).__name__}')
            items.append((kk, _jnorm(v, enc, skipkeys, sort_keys, depth + 1)))
        if sort_keys:
            if not allstr and len(items) > 1:
                raise ModelGap('sorting mixed-type keys')
            items.sort(key=lambda kv: kv[0])
        out = {}
        for k, v in items:
            out[k] = v
        return out
    return _jnorm(enc.default(o), enc, skipkeys, sort_keys, depth + 1)


def dumps(obj, skipkeys=False, ensure_ascii=True, check_circular=True, allow_nan=True,
          cls=None, indent=None, separators=None, default=None, sort_keys=False, **kw):
    if cls is None:
        enc = JSONEncoder()
        if default is not None:
            enc.default = default
    else:
        enc = cls(skipkeys=skipkeys, ensure_ascii=ensure_ascii, indent=indent,
                  sort_keys=sort_keys)
    return JsonText(_jnorm(obj, enc, skipkeys, sort_keys))


def dump(obj, fp, **kw):
    fp.write(dumps(obj, **kw))


def _jcopy(o):
    if isinstance(o, list):
        return [_jcopy(x) for x in o]
    if isinstance(o, dict):
        d = {}
        for k, v in o.items():
            d[k] = _jcopy(v)
        return d
    return o


def loads(s, **kw):
    if isinstance(s, JsonDoc):
        return _jcopy(s.obj)
    if isinstance(s, JsonText):
        return _jcopy(s.doc.obj)
    if isinstance(s, TornText) or s is TORN:
        raise JSONDecodeError('torn JSON text', '', 0)
    if isinstance(s, ReadmeToken):
        raise JSONDecodeError('not JSON', '', 0)
    if isinstance(s, str):
        try:
            return _realjson.loads(s)
        except ValueError as e:
            raise JSONDecodeError(str(e), '', 0)
    raise TypeError('the JSON object must be str')


def load(fp, **kw):
    return loads(fp.read())


# ---- tarfile / shutil -----------------------------------------------------------------------------
class TarError(Exception):
    pass


class CompressionError(TarError):
    pass


def _snapshot(node):
    if isinstance(node, Dir):
        return ('dir', tuple(sorted((k, _snapshot(v)) for k, v in node.entries.items())))
    if isinstance(node, Symlink):
        return ('symlink', node.target)
    if node.bin is not None:
        return ('bin', symnp._segs_key(node.bin))
    return ('text', node.text)


class _Tar:
    def __init__(self, node, comp):
        self.node = node
        self.comp = comp
        self.members = []

    def __enter__(self):
        return self

    def __exit__(self, *a):
        self.close()
        return False

    def add(self, name, arcname=None, recursive=True):
        n = _W.lookup(_fspath(name))
        if n is None:
            raise FileNotFoundError(errno.ENOENT, 'no such file')
        self.members.append((arcname if arcname is not None else _fspath(name), _snapshot(n)))

    def close(self):
        self.node.text = ('tar', self.comp, tuple(self.members))
        self.node.bin = None


def taropen(name=None, mode='r', **kw):
    p = _fspath(name)
    if ':' in mode:
        fm, comp = mode.split(':', 1)
    else:
        fm, comp = mode, ''
    if fm not in ('r', 'w', 'x', 'a'):
        raise ValueError("mode must be 'r', 'a', 'w' or 'x'")
    if comp not in ('', 'gz', 'bz2', 'xz'):
        raise CompressionError(f'unknown compression type {comp!r}')
    if fm in ('r', 'a'):
        raise ModelGap('tar read/append')
    f = open(p, 'xb' if fm == 'x' else 'wb')
    f.close()
    return _Tar(f.node, comp)


def rmtree(p, ignore_errors=False):
    p = _fspath(p)
    parent, name, node = _W._walk(p, follow_last=False)
    if node is None:
        raise FileNotFoundError(errno.ENOENT, 'no such file')
    if not isinstance(node, Dir):
        raise NotADirectoryError(errno.ENOTDIR, 'not a directory')
    if _W.tick('rmtree'):
        raise Crash('before rmtree')
    del parent.entries[name]


def copytree(src, dst, **kw):
    raise ModelGap('copytree')
