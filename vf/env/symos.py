"""`os` as seen by the loaded Darr source."""
from .symfs import (truncate, unlink, remove, rmdir, mkdir, rename, replace, fsync, fstat, stat,
                    listdir, fspath, getcwd, path, sep, linesep, name, PathLike)
import errno  # noqa
