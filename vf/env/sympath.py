"""`pathlib` as seen by the loaded Darr source."""
from .symfs import Path, PurePath, PosixPath
